package storethehash

import (
	"bytes"
	"context"
	"path/filepath"
	"time"

	blocks "github.com/ipfs/go-block-format"
	"github.com/ipfs/go-cid"
	ipld "github.com/ipfs/go-ipld-format"
	"github.com/ipld/go-storethehash/internal/vrt"
	store "github.com/ipld/go-storethehash/store"
)

type bsModel struct {
	present []bool
	data    [][]byte
}

// Verif_H15BS: C15 — blockstore contract over symbolic CIDs and block bytes.
func Verif_H15BS() {
	dir := vrt.TempDir()
	bs, err := OpenHashedBlockstore(context.Background(), filepath.Join(dir, "i"), filepath.Join(dir, "d"),
		store.IndexBitSize(8), store.GCInterval(0), store.SyncInterval(time.Hour))
	vrt.Assert(err == nil, "open-no-error")
	if err != nil {
		return
	}
	K := vrt.Param("digests", 2)
	L := vrt.Param("diglen", 4)
	codecs := []uint64{cid.Raw, cid.DagCBOR}
	// digests: identity multihashes, bucket byte from two values, rest symbolic, pairwise distinct
	mhs := make([][]byte, K)
	for i := range mhs {
		// the first bytes of the digest are symbolic, the rest (long digests) is a fixed pad
		SL := L
		if SL > 4 {
			SL = 4
		}
		d := vrt.Bytes("digest", SL)
		for j := SL; j < L; j++ {
			d = append(d, byte(0x40+j%7))
		}
		vrt.Assume(d[0] == []byte{0x00, 0xA5}[vrt.Choose("bucket", 2)])
		// identity multihash: code 0, length as a varint (two bytes from 128 on), digest
		hdr := []byte{0x00, byte(L)}
		if L >= 128 {
			hdr = []byte{0x00, byte(L&0x7f) | 0x80, byte(L >> 7)}
		}
		mhs[i] = append(hdr, d...)
		for j := 0; j < i; j++ {
			vrt.Assume(!bytes.Equal(mhs[i], mhs[j]))
		}
	}
	// blocks are stored under a chosen codec; lookups and deletes go through another
	// codec (CIDs differing only in codec address the same block)
	mkCid := func(i int) cid.Cid {
		return cid.NewCidV1(codecs[vrt.Choose("codec", len(codecs))], mhs[i])
	}
	lookupCid := func(i int) cid.Cid { return cid.NewCidV1(cid.DagProtobuf, mhs[i]) }
	// block bytes: honest (equal to the identity digest) or arbitrary bytes of the same length
	mkData := func(i int) []byte {
		// symbolic bytes of the digest's length (free to equal the digest: an honest
		// block) or an empty block
		if vrt.Choose("empty-block", 2) == 1 {
			return []byte{}
		}
		SL := L
		if SL > 4 {
			SL = 4
		}
		data := vrt.Bytes("blockdata", SL)
		for j := SL; j < L; j++ {
			data = append(data, byte(0x40+j%7))
		}
		return data
	}
	// cancelled contexts are exercised by a dedicated operation kind (case 7) instead of a
	// two-way choice inside every operation
	cancelNext := false
	mkCtx := func() (context.Context, bool) {
		if cancelNext {
			cancelNext = false
			ctx, cancel := context.WithCancel(context.Background())
			cancel()
			return ctx, true
		}
		return context.Background(), false
	}
	m := &bsModel{present: make([]bool, K), data: make([][]byte, K)}
	hashOnRead := false
	isNotFound := func(err error) bool { return ipld.IsNotFound(err) }

	checkGet := func(i int, c cid.Cid, where string) {
		blk, err := bs.Get(context.Background(), c)
		if !m.present[i] {
			vrt.Assert(err != nil && isNotFound(err), "get-unknown-cid-is-ipld-not-found", "where", where)
			return
		}
		honest := bytes.Equal(m.data[i], mhs[i][len(mhs[i])-L:])
		if hashOnRead && !honest {
			vrt.Assert(err == blocks.ErrWrongHash, "hash-on-read-rejects-wrong-bytes", "where", where)
			return
		}
		vrt.Assert(err == nil, "get-no-error", "where", where, "hashonread", hashOnRead, "honest", honest)
		if err != nil {
			return
		}
		vrt.Assert(blk.Cid().Equals(c), "get-returns-requested-cid", "where", where)
		vrt.Assert(bytes.Equal(blk.RawData(), m.data[i]), "get-returns-stored-bytes", "where", where)
	}
	checkHasSize := func(i int, c cid.Cid, where string) {
		has, err := bs.Has(context.Background(), c)
		vrt.Assert(err == nil, "has-no-error", "where", where)
		vrt.Assert(has == m.present[i], "has-agrees-with-get", "where", where, "want", m.present[i])
		sz, err := bs.GetSize(context.Background(), c)
		if m.present[i] {
			vrt.Assert(err == nil, "getsize-no-error", "where", where)
			vrt.Assert(sz == len(m.data[i]), "getsize-agrees-with-get", "where", where)
		} else {
			vrt.Assert(err != nil && isNotFound(err), "getsize-unknown-cid-is-ipld-not-found", "where", where)
		}
	}

	n := vrt.Param("ops", 3)
	for step := 0; step < n; step++ {
		op := vrt.Choose("op", 8)
		if op == 7 { // the same kinds again, with a cancelled context
			cancelNext = true
			op = []int{0, 2, 4}[vrt.Choose("cancelled-op", 3)] // Put, Get, DeleteBlock
		}
		switch op {
		case 0: // Put
			i := vrt.Choose("digest-index", K)
			c := mkCid(i)
			data := mkData(i)
			blk, err := blocks.NewBlockWithCid(data, c)
			vrt.Assert(err == nil, "new-block")
			ctx, cancelled := mkCtx()
			err = bs.Put(ctx, blk)
			if cancelled {
				vrt.Assert(err != nil, "cancelled-put-fails")
			} else {
				vrt.Assert(err == nil, "put-no-error")
				if !m.present[i] { // duplicate puts are accepted silently and change nothing
					m.present[i] = true
					m.data[i] = data
				}
			}
		case 1: // PutMany of two blocks
			ctx, cancelled := mkCtx()
			var blks []blocks.Block
			var idx []int
			var datas [][]byte
			for k := 0; k < 2; k++ {
				i := vrt.Choose("digest-index", K)
				data := vrt.Bytes("blockdata", L)
				blk, _ := blocks.NewBlockWithCid(data, cid.NewCidV1(cid.Raw, mhs[i]))
				blks = append(blks, blk)
				idx = append(idx, i)
				datas = append(datas, data)
			}
			err := bs.PutMany(ctx, blks)
			if cancelled {
				vrt.Assert(err != nil, "cancelled-putmany-fails")
			} else {
				vrt.Assert(err == nil, "putmany-no-error")
				for k, i := range idx {
					if !m.present[i] {
						m.present[i] = true
						m.data[i] = datas[k]
					}
				}
			}
		case 2: // Get (possibly through a different codec than the one stored under)
			i := vrt.Choose("digest-index", K)
			c := lookupCid(i)
			ctx, cancelled := mkCtx()
			if cancelled {
				_, err := bs.Get(ctx, c)
				vrt.Assert(err != nil, "cancelled-get-fails")
			} else {
				checkGet(i, c, "history")
			}
		case 3:
			i := vrt.Choose("digest-index", K)
			c := lookupCid(i)
			ctx, cancelled := mkCtx()
			if cancelled {
				_, err := bs.Has(ctx, c)
				vrt.Assert(err != nil, "cancelled-has-fails")
				_, err = bs.GetSize(ctx, c)
				vrt.Assert(err != nil, "cancelled-getsize-fails")
			} else {
				checkHasSize(i, c, "history")
			}
		case 4: // DeleteBlock
			i := vrt.Choose("digest-index", K)
			c := lookupCid(i)
			ctx, cancelled := mkCtx()
			err := bs.DeleteBlock(ctx, c)
			if cancelled {
				vrt.Assert(err != nil, "cancelled-delete-fails")
			} else {
				vrt.Assert(err == nil, "delete-no-error")
				m.present[i] = false
				m.data[i] = nil
			}
		case 5:
			hashOnRead = vrt.Choose("hashonread", 2) == 1
			bs.HashOnRead(hashOnRead)
		case 6:
			vrt.Assert(bs.store.Flush() == nil, "flush-no-error")
		}
	}
	for i := 0; i < K; i++ {
		c := cid.NewCidV1(cid.DagProtobuf, mhs[i])
		checkGet(i, c, "end")
		checkHasSize(i, c, "end")
	}
	bs.Close()
	vrt.Cover("h15-end")
}
