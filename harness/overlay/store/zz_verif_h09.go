package store

import (
	"bytes"
	"context"
	"errors"
	"os"
	"path/filepath"

	"github.com/ipld/go-storethehash/internal/vrt"
	"github.com/ipld/go-storethehash/store/index"
	"github.com/ipld/go-storethehash/store/types"
)

type dirImage struct {
	names []string
	data  [][]byte
}

func readDirImage(dir string) dirImage {
	var im dirImage
	for _, n := range vrt.ListDir(dir) {
		b, err := os.ReadFile(filepath.Join(dir, n))
		if err != nil {
			continue
		}
		im.names = append(im.names, n)
		im.data = append(im.data, b)
	}
	return im
}

func sameDirImage(a, b dirImage) bool {
	if len(a.names) != len(b.names) {
		return false
	}
	for i := range a.names {
		if a.names[i] != b.names[i] || !bytes.Equal(a.data[i], b.data[i]) {
			return false
		}
	}
	return true
}

var optionalCoverH09 = []string{"h09-interrupted-translation-recovered", "h09-interrupted-translation-refused", "h09-first-file-advanced-before-change"}

var bitChoices = []uint8{8, 9, 12, 16, 10, 11}

// Verif_H09Translate: C09 — reopening with another index bit size re-buckets without
// changing contents; file-size mismatches are refused with the specific error and leave
// the directory untouched.
func Verif_H09Translate() {
	dir := vrt.TempDir()
	nb := vrt.Param("nbits", 3)
	choices := bitChoices
	if vrt.Param("widebits", 0) != 0 {
		choices = []uint8{8, 16} // sizes that strip a different number of key bytes
	}
	b1 := choices[vrt.Choose("bits1", nb)]
	b2 := choices[vrt.Choose("bits2", nb)]
	if vrt.Param("widebits", 0) == 2 {
		vrt.Assume(b1 == 8 && b2 == 16) // only the widening direction (the 16-bit table is costly to explore)
	}
	c := symCfg()
	c.bits = b1
	s, err := openCfg(dir, c)
	vrt.Assert(err == nil, "open-no-error")
	if err != nil {
		return
	}
	// keys must be well-formed under both bit sizes; the bucket choice is made for the
	// larger one (it determines the smaller one's bucket too)
	mb := b1
	if b2 > mb {
		mb = b2
	}
	keys := mkKeys(vrt.Param("keys", 2), vrt.Param("diglen", 4), mb)
	m := newModel(len(keys))
	scriptedPrefix(s, c, keys, m, vrt.Param("prefix", 0))
	n := vrt.Param("ops", 2)
	ops := []int{opPut, opRemove, opFlush}
	for step := 0; step < n; step++ {
		apiStep(s, c, keys, m, ops[vrt.Choose("op", len(ops))], "history")
	}
	if vrt.Param("pregc", 0) != 0 {
		// an index that was garbage collected before the change (its header's first-file
		// number may have advanced past 0)
		_, _, err := s.index.VerifGC(context.Background(), true)
		vrt.Assert(err == nil, "index-gc-no-error", "where", "before-bit-size-change")
		checkAll(s, keys, m, "after-gc")
		if h, err := index.VerifReadHeader(s.index.VerifBasePath()); err == nil && h.FirstFile > 0 {
			vrt.Cover(optionalCoverH09[2])
		}
	}
	vrt.Assert(s.Close() == nil, "close-no-error")

	scen := 0
	if vrt.Param("onlytranslate", 0) == 0 {
		scen = vrt.Choose("scenario", 4+vrt.Param("crash", 0))
	}
	if scen == 3 && vrt.Param("crash", 0) == 0 {
		scen = 4
	} else if scen == 4 {
		scen = 4
	}
	switch scen {
	case 4: // bit size and index file size changed in one call: still refused
		before := readDirImage(dir)
		c2 := c
		c2.bits = b2
		vrt.Assume(b1 != b2)
		c2.ifs = vrt.U32("other-ifs")
		vrt.Assume(c2.ifs >= 1)
		vrt.Assume(c2.ifs <= 1<<30)
		vrt.Assume(c2.ifs != c.ifs)
		_, err := openCfg(dir, c2)
		var want types.ErrIndexWrongFileSize
		vrt.Assert(err != nil && errors.As(err, &want), "index-file-size-mismatch-refused-also-when-bit-size-changes")
		vrt.Assert(sameDirImage(before, readDirImage(dir)), "refused-open-leaves-directory-untouched", "which", "index+bits")
		s3, err := openCfg(dir, c)
		vrt.Assert(err == nil, "open-with-original-settings-no-error")
		if err != nil {
			return
		}
		checkAll(s3, keys, m, "after-refused-open")
		vrt.Assert(s3.Close() == nil, "close3-no-error")
	case 3: // interrupted re-bucketing: never a store that opens with fewer keys
		c2 := c
		c2.bits = b2
		vrt.Assume(b1 != b2)
		vrt.CrashBegin(dir)
		s2, err := openCfg(dir, c2)
		vrt.Assert(err == nil, "open-with-new-bit-size-no-error", "b1", b1, "b2", b2)
		_ = s2
		vrt.CrashEnd()
		img := vrt.CrashImage()
		cfgs := []vcfg{c, c2}
		which := vrt.Choose("reopen-with", 2)
		r, err := openCfg(img, cfgs[which])
		if err != nil {
			vrt.Cover(optionalCoverH09[1])
			return // an open that fails is allowed; one that succeeds must be complete
		}
		checkAll(r, keys, m, []string{"interrupted-translation/reopen-old-bits", "interrupted-translation/reopen-new-bits"}[which])
		vrt.Assert(r.Close() == nil, "close-recovered-no-error")
		vrt.Cover(optionalCoverH09[0])
	case 0: // bit-size change
		c2 := c
		c2.bits = b2
		s2, err := openCfg(dir, c2)
		vrt.Assert(err == nil, "open-with-new-bit-size-no-error", "b1", b1, "b2", b2)
		if err != nil {
			return
		}
		checkAll(s2, keys, m, "translated")
		checkIter(s2, keys, m, "translated")
		if vrt.Param("uncleancopy", 1) != 0 {
			// the re-bucketed store must also survive an unclean shutdown right away: a copy
			// of the directory (no bucket snapshot) is recovered by scanning the index files,
			// so anything left in the index directory that is not part of the new index shows
			img := vrt.CopyDir(dir)
			r, err := openCfg(img, c2)
			vrt.Assert(err == nil, "open-copy-of-translated-store-no-error")
			if err == nil {
				checkAll(r, keys, m, "translated/unclean-copy")
				vrt.Assert(r.Close() == nil, "close-copy-no-error")
			}
		}
		apiStep(s2, c2, keys, m, []int{opPut, opRemove}[vrt.Choose("after-op", 2)], "after-translate")
		checkAll(s2, keys, m, "after-translate")
		vrt.Assert(s2.Close() == nil, "close2-no-error")
		s3, err := openCfg(dir, c2)
		vrt.Assert(err == nil, "reopen-translated-no-error")
		if err != nil {
			return
		}
		checkAll(s3, keys, m, "translated-reopened")
		vrt.Assert(s3.Close() == nil, "close3-no-error")
		if b1 != b2 {
			vrt.Cover("h09-translated")
		}
	case 1: // index file-size mismatch
		before := readDirImage(dir)
		c2 := c
		c2.ifs = vrt.U32("other-ifs")
		vrt.Assume(c2.ifs >= 1)
		vrt.Assume(c2.ifs <= 1<<30)
		vrt.Assume(c2.ifs != c.ifs)
		_, err := openCfg(dir, c2)
		var want types.ErrIndexWrongFileSize
		vrt.Assert(err != nil && errors.As(err, &want), "index-file-size-mismatch-refused")
		vrt.Assert(sameDirImage(before, readDirImage(dir)), "refused-open-leaves-directory-untouched", "which", "index")
		s3, err := openCfg(dir, c)
		vrt.Assert(err == nil, "open-with-original-settings-no-error")
		if err != nil {
			return
		}
		checkAll(s3, keys, m, "after-refused-open")
		vrt.Assert(s3.Close() == nil, "close3-no-error")
		vrt.Cover("h09-index-mismatch")
	case 2: // primary file-size mismatch
		before := readDirImage(dir)
		c2 := c
		c2.pfs = vrt.U32("other-pfs")
		vrt.Assume(c2.pfs >= 1)
		vrt.Assume(c2.pfs <= 1<<30)
		vrt.Assume(c2.pfs != c.pfs)
		_, err := openCfg(dir, c2)
		var want types.ErrPrimaryWrongFileSize
		vrt.Assert(err != nil && errors.As(err, &want), "primary-file-size-mismatch-refused")
		vrt.Assert(sameDirImage(before, readDirImage(dir)), "refused-open-leaves-directory-untouched", "which", "primary")
		s3, err := openCfg(dir, c)
		vrt.Assert(err == nil, "open-with-original-settings-no-error")
		if err != nil {
			return
		}
		checkAll(s3, keys, m, "after-refused-open")
		vrt.Assert(s3.Close() == nil, "close3-no-error")
		vrt.Cover("h09-primary-mismatch")
	}
	vrt.Cover("h09-end")
}
