package store

import "time"

// Option helpers taking plain nanoseconds so harnesses need not build time.Duration
// constants from symbolic data.
func GCIntervalNs(ns int) Option   { return GCInterval(time.Duration(ns)) }
func GCTimeLimitNs(ns int) Option  { return GCTimeLimit(time.Duration(ns)) }
func SyncIntervalNs(ns int) Option { return SyncInterval(time.Duration(ns)) }
