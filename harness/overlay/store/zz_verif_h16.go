package store

import (
	"context"

	"github.com/ipld/go-storethehash/internal/vrt"
	mhprimary "github.com/ipld/go-storethehash/store/primary/multihash"
)

const (
	actPut = iota
	actGet
	actRemove
	actFlush
	actSizes
	actCacheSize
	actIndexGC
	actPrimaryGC
	nActs
	actPutFlush = nActs // compound: a writer that flushes itself (only in runs that fix the pair)
)

func runAct(s *Store, act int, key []byte, val []byte, scanFree bool) {
	switch act {
	case actPut:
		s.Put(key, val)
	case actGet:
		s.Get(key)
		s.Has(key)
		s.GetSize(key)
	case actRemove:
		s.Remove(key)
	case actFlush:
		s.Flush()
	case actPutFlush:
		s.Put(key, val)
		s.Flush()
	case actSizes:
		s.StorageSize()
		s.IndexStorageSize()
		s.PrimaryStorageSize()
		s.FreelistStorageSize()
	case actCacheSize:
		s.SetFileCacheSize(1)
	case actIndexGC:
		s.index.VerifGC(context.Background(), scanFree)
	case actPrimaryGC:
		s.index.Primary.(*mhprimary.MultihashPrimary).GC(context.Background(), 0)
	}
}

// Verif_H16Races: C16 — pairs of concurrent activities on one store under the engine's
// happens-before race monitor (vector clocks over mutex, RWMutex, channel, Once and go
// edges). A pair of conflicting accesses unordered by happens-before is a data race on
// every schedule on which both execute, so few preemptions are needed.
func Verif_H16Races() {
	dir := vrt.TempDir()
	c := vcfg{bits: 8, primary: MultihashPrimary, gc: true, ifs: 1, pfs: 1}
	c.sync = vrt.Param("synconflush", 0) != 0 // fsync as part of every flush
	s, err := openCfg(dir, c)
	vrt.Assert(err == nil, "open-no-error")
	if err != nil {
		return
	}
	// data values are irrelevant to races: concrete keys (same bucket, shared stored
	// prefix byte) and values keep the exploration to schedules and activity pairs
	keys := [][]byte{{0x00, 4, 0x5A, 0x01, 0x02, 0x03}, {0x00, 4, 0x5A, 0x01, 0x07, 0x08}}
	m := newModel(len(keys))
	// prefix 1 leaves everything flushed, prefix 4 ends with unflushed overwrites (so that a
	// concurrent Flush has work to commit)
	// prefix 9: several index files (the collectors only visit non-current files) and
	// unflushed work on top
	if fp := vrt.Param("fixprefix", -1); fp >= 0 {
		scriptedPrefix(s, c, keys, m, fp)
	} else {
		scriptedPrefix(s, c, keys, m, []int{1, 4, 9}[vrt.Choose("prefix", 3)])
	}
	if vrt.Param("rated", 1) != 0 {
		// a known flush rate and no burst allowance: writers take the back-pressure path
		s.flushRate = 1
		s.burstRate = 0
	}
	var a, b int
	if pa, pb := vrt.Param("acta", -1), vrt.Param("actb", -1); pa >= 0 && pb >= 0 {
		a, b = pa, pb // a run that fixes the pair (deeper preemption bound)
	} else {
		a = vrt.Choose("act-a", nActs)
		b = a + vrt.Choose("act-b", nActs-a)
	}
	// two cycles of the same collector never run concurrently (each collector is one goroutine)
	vrt.Assume(!(a == b && a >= actIndexGC))
	if vrt.Param("gconly", 0) != 0 {
		vrt.Assume(b >= actIndexGC) // only pairs in which one side is a collector
	}
	// same key or two keys of one bucket (locks are not per key; one structural bit)
	// index GC with or without its unused-file scan (without it, files are reaped record by record)
	scanFree := true
	if b >= actIndexGC && (a == actIndexGC || b == actIndexGC) {
		scanFree = vrt.Choose("scanfree", 2) == 1
	}
	ka, kb := keys[0], keys[vrt.Param("samekey", 0)^1]
	va, vb := []byte{0xA1}, []byte{0xB2}
	if vrt.Param("started", 1) != 0 {
		s.Start() // background flusher (it answers flush requests of rate-limited writers)
	}
	vrt.Quiesce()
	da, db := make(chan struct{}), make(chan struct{})
	vrt.SchedBegin()
	go func() {
		runAct(s, a, ka, va, scanFree)
		close(da)
	}()
	go func() {
		runAct(s, b, kb, vb, scanFree)
		close(db)
	}()
	<-da
	<-db
	vrt.SchedEnd()
	s.Close()
	vrt.Cover("h16-end")
}
