package store

import (
	"context"
	"errors"
	"os"
	"path/filepath"

	"github.com/ipld/go-storethehash/internal/vrt"
	"github.com/ipld/go-storethehash/store/types"
)

var optionalCoverH17 = []string{"h17-close-returned-the-flush-error"}

func openBG(dir string, c vcfg) (*Store, error) {
	// background GC enabled with a time limit: timers are virtual, they fire when the
	// scheduler (or vrt.FireTimers) says so
	return OpenStore(context.Background(), c.primary, filepath.Join(dir, "d"), filepath.Join(dir, "i"), c.immutable,
		IndexBitSize(c.bits), IndexFileSize(c.ifs), PrimaryFileSize(c.pfs), GCIntervalNs(1000), GCTimeLimitNs(500), SyncIntervalNs(1000))
}

// Verif_H17Close: C17 — Close issued while the background flusher and GC cycles are at
// arbitrary points: afterwards no store goroutine is left, no descriptor is open, firing
// every remaining timer changes nothing on disk, a second Close is a no-op; failing opens
// release everything; repeated open/close cycles do not accumulate anything.
func Verif_H17Close() {
	dir := vrt.TempDir()
	c := vcfg{bits: 8, primary: MultihashPrimary, ifs: 1, pfs: 1}
	keys := [][]byte{{0x00, 4, 0x5A, 0x01, 0x02, 0x03}, {0x00, 4, 0x5A, 0x01, 0x07, 0x08}}
	g0, f0 := vrt.Goroutines(), vrt.OpenFiles()

	switch vrt.Choose("scenario", 4) {
	case 3: // Close whose final flush fails (the next primary file's name is taken)
		s, err := openBG(dir, c)
		vrt.Assert(err == nil, "open-no-error")
		if err != nil {
			return
		}
		s.Start()
		vrt.Assert(s.Put(keys[0], []byte{1}) == nil, "put-no-error")
		vrt.Assert(s.Flush() == nil, "flush-no-error")
		vrt.Assert(s.Put(keys[1], []byte{2}) == nil, "put-no-error")
		// with a limit of 1 byte per file the pending record belongs into d.1; a stray file
		// of that name makes the primary refuse to roll over
		vrt.Assert(os.WriteFile(filepath.Join(dir, "d.1"), []byte{0}, 0o644) == nil, "setup-stray-file")
		cerr := s.Close()
		if cerr != nil {
			vrt.Cover(optionalCoverH17[0])
		}
		checkQuiet(dir, g0, f0, "after-failing-close")
		vrt.Cover("h17-close-with-failing-flush")
	case 0: // Close racing with background activity
		s, err := openBG(dir, c)
		vrt.Assert(err == nil, "open-no-error")
		if err != nil {
			return
		}
		m := newModel(len(keys))
		scriptedPrefix(s, c, keys, m, 1)
		s.Start()
		vrt.Quiesce()
		vrt.SchedBegin()
		// one more write, then Close; timers (flusher tick, index GC, primary GC) may fire
		// at any scheduling point, so cycles are at arbitrary points when Close arrives
		vrt.Assert(s.Put(keys[1], []byte{0xC3}) == nil, "put-no-error")
		vrt.Assert(s.Close() == nil, "close-no-error")
		// still inside the scheduling window: what a goroutine that outlived Close does next
		// is part of the recorded schedule, so a counterexample replays deterministically
		checkQuiet(dir, g0, f0, "after-close")
		vrt.SchedEnd()
		vrt.Assert(s.Close() == nil, "second-close-is-a-no-op")
		checkQuiet(dir, g0, f0, "after-second-close")
		vrt.Cover("h17-close-vs-background")
	case 1: // failing opens
		s, err := openCfg(dir, c)
		vrt.Assert(err == nil, "open-no-error")
		if err != nil {
			return
		}
		vrt.Assert(s.Put(keys[0], []byte{1}) == nil, "put-no-error")
		vrt.Assert(s.Close() == nil, "close-no-error")
		bad := c
		switch vrt.Choose("failure", 4) {
		case 0:
			bad.ifs = 2 // index file-size mismatch
		case 1:
			bad.pfs = 2 // primary file-size mismatch
		case 2:
			bad.bits, bad.ifs = 9, 2 // translation needed, and it fails
		case 3:
			bad.bits = 40 // illegal bit size
		}
		_, err = openBG(dir, bad)
		vrt.Assert(err != nil, "bad-open-fails")
		var e1 types.ErrIndexWrongFileSize
		var e2 types.ErrPrimaryWrongFileSize
		_ = errors.As(err, &e1) || errors.As(err, &e2)
		checkQuiet(dir, g0, f0, "after-failed-open")
		vrt.Cover("h17-failed-open")
	case 2: // open/close cycles; the last one changes the index bit size (re-bucketing on open)
		for round := 0; round < 3; round++ {
			if round == 2 {
				c.bits = 9
			}
			s, err := openBG(dir, c)
			vrt.Assert(err == nil, "open-no-error")
			if err != nil {
				return
			}
			s.Start()
			vrt.Assert(s.Put(keys[round%2], []byte{byte(round)}) == nil, "put-no-error")
			vrt.Assert(s.Close() == nil, "close-no-error")
			checkQuiet(dir, g0, f0, "after-cycle")
		}
		vrt.Cover("h17-cycles")
	}
	vrt.Cover("h17-end")
}

// checkQuiet: nothing of the store is left running or open, and letting every remaining
// timer fire does not touch the directory.
func checkQuiet(dir string, g0, f0 int, where string) {
	vrt.Quiesce()
	vrt.Assert(vrt.Goroutines() == g0, "no-goroutine-left", "where", where, "have", vrt.Goroutines(), "want", g0)
	vrt.Assert(vrt.OpenFiles() == f0, "no-descriptor-left", "where", where, "have", vrt.OpenFiles(), "want", f0)
	before := readDirImage(dir)
	vrt.FireTimers()
	vrt.Quiesce()
	vrt.FireTimers()
	vrt.Quiesce()
	vrt.Assert(sameDirImage(before, readDirImage(dir)), "directory-untouched-after-close", "where", where)
	vrt.Assert(vrt.Goroutines() == g0, "no-goroutine-left", "where", where+"+timers", "have", vrt.Goroutines(), "want", g0)
}
