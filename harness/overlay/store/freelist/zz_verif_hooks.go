package freelist

import "github.com/ipld/go-storethehash/store/types"

// VerifPool returns a copy of the unflushed freelist entries (overlay only).
func (cp *FreeList) VerifPool() []types.Block {
	return append([]types.Block{}, cp.blockPool...)
}
