package freelist

import (
	"io"
	"os"
	"path/filepath"

	"github.com/ipld/go-storethehash/internal/vrt"
	"github.com/ipld/go-storethehash/store/types"
)

// readAll parses a freelist file into blocks (nil if the file does not exist).
func readAll(path string) []types.Block {
	f, err := os.Open(path)
	if err != nil {
		return nil
	}
	defer f.Close()
	it := NewIterator(f)
	var out []types.Block
	for {
		b, err := it.Next()
		if err != nil {
			vrt.Assert(err == io.EOF, "freelist-file-parses-to-the-end")
			return out
		}
		out = append(out, *b)
		if len(out) > 16 {
			vrt.Fail("freelist-file-too-long")
			return out
		}
	}
}

// multisetEqual compares two small multisets of blocks with symbolic contents.
func multisetEqual(a, b []types.Block) bool {
	if len(a) != len(b) {
		return false
	}
	used := make([]bool, len(b))
	for _, x := range a {
		hit := false
		for j, y := range b {
			if !used[j] && x == y {
				used[j] = true
				hit = true
				break
			}
		}
		if !hit {
			return false
		}
	}
	return true
}

// Verif_KFL: C13 kernel — every freelist operation conserves the multiset of entries
// in pool ∪ file ∪ .gc file, and ToGC hands each entry over exactly once.
func Verif_KFL() {
	dir := vrt.TempDir()
	path := filepath.Join(dir, "fl")
	fl, err := Open(path)
	vrt.Assert(err == nil, "open-no-error")
	if err != nil {
		return
	}
	var model []types.Block // everything ever Put and not yet consumed by "GC"
	var handed []types.Block
	steps := vrt.Param("ops", 4)
	maxBlocks := vrt.Param("blocks", 3)
	nput := 0
	for step := 0; step < steps; step++ {
		switch vrt.Choose("op", 5) {
		case 0: // Put
			if nput >= maxBlocks {
				vrt.Assume(false)
			}
			nput++
			b := types.Block{Offset: types.Position(vrt.U64("off")), Size: types.Size(vrt.U32("size"))}
			vrt.Assert(fl.Put(b) == nil, "put-no-error")
			model = append(model, b)
		case 1:
			_, err := fl.Flush()
			vrt.Assert(err == nil, "flush-no-error")
		case 2: // hand-over to GC; GC consumes the .gc file completely
			gcPath, err := fl.ToGC()
			vrt.Assert(err == nil, "togc-no-error")
			vrt.Assert(gcPath == path+".gc", "togc-path")
			got := readAll(gcPath)
			handed = append(handed, got...)
			vrt.Assert(os.Remove(gcPath) == nil, "gc-removes-file")
			vrt.Cover("kfl-handover")
		case 3: // hand-over interrupted: GC did not finish, .gc stays and is offered again
			gcPath, err := fl.ToGC()
			vrt.Assert(err == nil, "togc-no-error")
			_ = gcPath
		case 4: // close and reopen
			vrt.Assert(fl.Close() == nil, "close-no-error")
			fl, err = Open(path)
			vrt.Assert(err == nil, "reopen-no-error")
			if err != nil {
				return
			}
		}
		// conservation: handed ∪ pool ∪ file ∪ .gc == model
		var all []types.Block
		all = append(all, handed...)
		all = append(all, fl.blockPool...)
		// flushed-but-buffered entries do not exist: Flush always flushes the writer
		all = append(all, readAll(path)...)
		all = append(all, readAll(path+".gc")...)
		vrt.Assert(multisetEqual(all, model), "freelist-entries-conserved", "have", len(all), "want", len(model))
	}
	vrt.Assert(fl.Close() == nil, "final-close-no-error")
	vrt.Cover("kfl-end")
}
