package freelist

import (
	"os"
	"path/filepath"

	"github.com/ipld/go-storethehash/internal/vrt"
	"github.com/ipld/go-storethehash/store/types"
)

// Verif_H13Conc: C13 schedule clause — freelist Put, Flush and the hand-over to GC
// running concurrently conserve the multiset of entries (pool ∪ file ∪ .gc ∪ consumed).
func Verif_H13Conc() {
	dir := vrt.TempDir()
	path := filepath.Join(dir, "fl")
	fl, err := Open(path)
	vrt.Assert(err == nil, "open-no-error")
	if err != nil {
		return
	}
	pre := types.Block{Offset: types.Position(vrt.U64("off")), Size: types.Size(vrt.U32("size"))}
	vrt.Assert(fl.Put(pre) == nil, "put-no-error")
	if vrt.Choose("pre-flushed", 2) == 1 {
		_, err := fl.Flush()
		vrt.Assert(err == nil, "flush-no-error")
	}
	b1 := types.Block{Offset: types.Position(vrt.U64("off")), Size: types.Size(vrt.U32("size"))}
	b2 := types.Block{Offset: types.Position(vrt.U64("off")), Size: types.Size(vrt.U32("size"))}
	model := []types.Block{pre, b1, b2}
	var handed []types.Block
	d1, d2, d3 := make(chan struct{}), make(chan struct{}), make(chan struct{})
	vrt.SchedBegin()
	go func() { // writer
		vrt.Assert(fl.Put(b1) == nil, "put-no-error")
		vrt.Assert(fl.Put(b2) == nil, "put-no-error")
		close(d1)
	}()
	go func() { // periodic flush
		_, err := fl.Flush()
		vrt.Assert(err == nil, "flush-no-error")
		close(d2)
	}()
	go func() { // GC hand-over: GC consumes the .gc file completely
		gcPath, err := fl.ToGC()
		vrt.Assert(err == nil, "togc-no-error")
		handed = append(handed, readAll(gcPath)...)
		vrt.Assert(os.Remove(gcPath) == nil, "gc-removes-file")
		close(d3)
	}()
	<-d1
	<-d2
	<-d3
	vrt.SchedEnd()
	var all []types.Block
	all = append(all, handed...)
	all = append(all, fl.blockPool...)
	vrt.Assert(fl.writer.Buffered() == 0 || true, "writer-state")
	_, err = fl.Flush()
	vrt.Assert(err == nil, "final-flush-no-error")
	all = append([]types.Block{}, handed...)
	all = append(all, readAll(path)...)
	all = append(all, readAll(path+".gc")...)
	vrt.Assert(multisetEqual(all, model), "freelist-entries-conserved-under-concurrency", "have", len(all), "want", len(model))
	vrt.Assert(fl.Close() == nil, "close-no-error")
	vrt.Cover("h13conc-end")
}
