package store

import (
	"bytes"

	"github.com/ipld/go-storethehash/internal/vrt"
	"github.com/ipld/go-storethehash/store/types"
)

// Verif_H12Wake: C12 — a writer made to wait by the rate limiter is released by a
// flush that completes after the wait began; explored over all schedules (bounded
// preemptions, bounded ticks). A lost wake-up shows up as a deadlock: once the writer
// waits there is always a pending flush request, so "nobody can move" can only mean that
// a flush completed without releasing the waiter.
func Verif_H12Wake() {
	dir := vrt.TempDir()
	c := vcfg{bits: 8, ifs: 1 << 30, pfs: 1 << 30, primary: MultihashPrimary}
	s, err := openCfg(dir, c)
	vrt.Assert(err == nil, "open-no-error")
	if err != nil {
		return
	}
	d := vrt.Bytes("digest", 4)
	vrt.Assume(d[0] == 0x5A) // concrete bucket; the other digest bytes stay symbolic
	key := append([]byte{0x00, 4}, d...)
	// one unflushed Put so that there is outstanding work; the Put itself returns before
	// any rate is known (flushRate == 0)
	vrt.Assert(s.Put(key, vrt.Bytes("val", 1)) == nil, "put-no-error")
	// enter the waiting path deterministically: a known (non-zero) flush rate and no burst allowance
	s.flushRate = 1
	s.burstRate = 0
	vrt.Quiesce()
	vrt.SchedBegin()
	s.Start() // background flusher: ticker + flushNow

	// harness threads signal completion by closing a channel (visible operations that
	// the native schedule replay can mirror)
	var done []chan struct{}
	writers := vrt.Param("writers", 1)
	for w := 0; w < writers; w++ {
		d := make(chan struct{})
		done = append(done, d)
		go func() {
			s.flushTick() // the writer's back-pressure step of Put/Remove
			close(d)
		}()
	}
	if vrt.Param("explicit", 1) != 0 && vrt.Choose("explicit-flush", 2) == 1 {
		d := make(chan struct{})
		done = append(done, d)
		go func() {
			vrt.Assert(s.Flush() == nil, "explicit-flush-no-error")
			close(d)
		}()
		vrt.Cover("h12-explicit-flush")
	}
	for _, d := range done {
		<-d // every writer was released
	}
	vrt.SchedEnd()
	vrt.Assert(s.Close() == nil, "close-no-error")
	vrt.Cover("h12-end")
}

var optionalCoverH12 = []string{"h12s-no-wait"}

// Verif_H12Seq: C12, first clause — a writer that was made to wait "is released by a flush
// that completes after the wait began". Sequential and deterministic: the writer's
// back-pressure step runs until it blocks, then one explicit Flush starts and completes,
// and the writer must have been released by it — for every burst allowance (symbolic) and
// both outcomes of the rate comparison, with several unflushed Puts in one bucket (the
// backlog the writer measures and the work the flush reports differ).
func Verif_H12Seq() {
	dir := vrt.TempDir()
	c := vcfg{bits: 8, ifs: 1 << 30, pfs: 1 << 30, primary: MultihashPrimary}
	s, err := openCfg(dir, c)
	vrt.Assert(err == nil, "open-no-error")
	if err != nil {
		return
	}
	n := vrt.Param("puts", 2)
	var keys [][]byte
	for i := 0; i < n; i++ {
		d := vrt.Bytes("digest", 4)
		vrt.Assume(d[0] == 0x5A)
		k := append([]byte{0x00, 4}, d...)
		for _, o := range keys {
			vrt.Assume(!bytes.Equal(o, k))
		}
		keys = append(keys, k)
		vrt.Assert(s.Put(k, vrt.Bytes("val", 1)) == nil, "put-no-error")
	}
	s.flushRate = 1
	burst := vrt.U32("burst")
	vrt.Assume(burst <= 1<<20)
	s.burstRate = types.Work(burst)
	done := make(chan struct{})
	go func() {
		s.flushTick() // the writer's back-pressure step of Put/Remove
		close(done)
	}()
	released := func() bool {
		select {
		case <-done:
			return true
		default:
			return false
		}
	}
	vrt.Quiesce()
	if released() {
		vrt.Cover(optionalCoverH12[0]) // backlog within the burst allowance, or inbound rate below the flush rate
	} else {
		// the writer waits; this flush starts and completes after the wait began
		vrt.Assert(s.Flush() == nil, "flush-no-error")
		vrt.Quiesce()
		ok := released()
		vrt.Assert(ok, "writer-released-by-the-flush-that-completed-after-its-wait-began")
		if !ok {
			return
		}
		vrt.Cover("h12s-waited")
	}
	vrt.Assert(s.Close() == nil, "close-no-error")
	vrt.Cover("h12s-end")
}
