package store

import (
	"context"

	"github.com/ipld/go-storethehash/internal/vrt"
	mhprimary "github.com/ipld/go-storethehash/store/primary/multihash"
)

// Verif_H06GC: C06 — one foreground call (or an explicit Flush with pending work) concurrent with one GC cycle (index or
// primary) on a store whose non-current files hold superseded records: the call does
// not fail, returns what the map model returns, and the final contents are the model's.
func Verif_H06GC() {
	dir := vrt.TempDir()
	c := vcfg{bits: 8, primary: MultihashPrimary, gc: true}
	switch vrt.Choose("sizes", vrt.Param("sizechoices", 2)) {
	case 0:
		c.ifs, c.pfs = 1, 1 // every record starts a new file
	case 1:
		c.ifs, c.pfs = 40, 24 // a few records per file
	}
	s, err := openCfg(dir, c)
	vrt.Assert(err == nil, "open-no-error")
	if err != nil {
		return
	}
	keys := mkKeys(vrt.Param("keys", 2), 4, c.bits)
	m := newModel(len(keys))
	scriptedPrefix(s, c, keys, m, 1+vrt.Choose("prefix", vrt.Param("prefixes", 2)))
	if vrt.Choose("flushed", 2) == 1 {
		vrt.Assert(s.Flush() == nil, "flush-no-error")
	}
	var kinds []int
	km := vrt.Param("ckinds", 7)
	for i, k := range []int{opPut, opGet, opRemove, opFlush} {
		if km&(1<<i) != 0 {
			kinds = append(kinds, k)
		}
	}
	a := symOp(kinds, len(keys))
	if a.kind == opFlush {
		// a flush concurrent with the cycle needs something to write: one acknowledged,
		// still unflushed operation before the window
		if vrt.Param("pendingputs", 0) != 0 {
			// every key rewritten and unflushed: the flush writes one record list per bucket
			for i := range keys {
				v := vrt.Bytes("pval", 1)
				vrt.Assert(s.Put(keys[i], v) == nil, "put-no-error", "where", "pending")
				m.set(i, true, v)
			}
		} else {
			apiStep(s, c, keys, m, []int{opPut, opRemove}[vrt.Choose("pending-op", 2)], "pending")
		}
	}
	gcKind := vrt.Param("gckind", -1)
	if gcKind < 0 {
		gcKind = vrt.Choose("gc-kind", 2)
	}
	scanFree := gcKind == 0 && vrt.Choose("scanfree", 2) == 1
	var gcErr error
	vrt.Quiesce()
	vrt.SchedBegin()
	da, dg := make(chan struct{}), make(chan struct{})
	go func() {
		a.run(s, keys)
		close(da)
	}()
	go func() {
		if gcKind == 0 {
			_, _, gcErr = s.index.VerifGC(context.Background(), scanFree)
		} else {
			_, gcErr = s.index.Primary.(*mhprimary.MultihashPrimary).GC(context.Background(), 0)
		}
		close(dg)
	}()
	<-da
	<-dg
	vrt.SchedEnd()
	vrt.Assert(gcErr == nil, "gc-cycle-no-error", "gc", gcKind)
	vrt.Assert(a.err == nil, "call-concurrent-with-gc-returns-no-error", "kind", a.kind, "gc", gcKind)
	vrt.Assert(a.matches(m, false), "call-concurrent-with-gc-matches-model", "kind", a.kind, "gc", gcKind)
	if vrt.Param("secondcycle", 0) != 0 && gcKind == 1 {
		// an idle store: a second primary GC cycle before anything else is flushed
		_, err := s.index.Primary.(*mhprimary.MultihashPrimary).GC(context.Background(), 0)
		vrt.Assert(err == nil, "gc-cycle-no-error", "gc", gcKind, "cycle", 2)
	}
	ctxs := map[int]string{opPut: "after-put", opGet: "after-get", opRemove: "after-remove", opFlush: "after-flush"}[a.kind] + []string{"+index-gc", "+primary-gc"}[gcKind]
	checkAll(s, keys, m, ctxs)
	vrt.Assert(s.Flush() == nil, "flush-no-error")
	checkAll(s, keys, m, ctxs+"+flush")
	fsck(s, dir, "after-concurrent-gc")
	vrt.Assert(s.Close() == nil, "close-no-error")
	if vrt.Param("reopen", 1) != 0 {
		// what the cycle did to the files underneath the call shows at the latest when the
		// caches are gone
		s2, err := openCfg(dir, c)
		vrt.Assert(err == nil, "reopen-no-error")
		if err != nil {
			return
		}
		checkAll(s2, keys, m, ctxs+"+reopen")
		vrt.Assert(s2.Close() == nil, "close2-no-error")
	}
	vrt.Cover("h06-end")
}
