package store

import (
	"context"
	"os"

	"github.com/ipld/go-storethehash/internal/vrt"
	"github.com/ipld/go-storethehash/store/index"
	mhprimary "github.com/ipld/go-storethehash/store/primary/multihash"
)

func fileLen(name string) int {
	fi, err := os.Stat(name)
	if err != nil {
		return -1
	}
	return int(fi.Size())
}

// Verif_H11Progress: C11 — after every key has been removed and the change flushed, a
// bounded number of GC cycles releases every non-current primary and index file; storage
// never grows across a cycle; a further cycle changes nothing (fixed point).
func Verif_H11Progress() {
	dir := vrt.TempDir()
	c := symCfg()
	c.gc = true
	s, err := openCfg(dir, c)
	vrt.Assert(err == nil, "open-no-error")
	if err != nil {
		return
	}
	keys := mkKeys(vrt.Param("keys", 2), vrt.Param("diglen", 4), c.bits)
	m := newModel(len(keys))
	scriptedPrefix(s, c, keys, m, 1+vrt.Choose("prefix", vrt.Param("prefixes", 3)))
	// a few free operations, then make every key dead and flush
	n := vrt.Param("ops", 1)
	ops := []int{opPut, opRemove, opFlush}
	for step := 0; step < n; step++ {
		apiStep(s, c, keys, m, ops[vrt.Choose("op", len(ops))], "history")
	}
	mp0 := s.index.Primary.(*mhprimary.MultihashPrimary)
	visitedEarly := false
	if vrt.Param("earlygc", 1) != 0 && vrt.Choose("early-gc", 2) == 1 {
		visitedEarly = true
		// a GC cycle while data is still live: files get visited before they die
		_, err = mp0.GC(context.Background(), 101)
		vrt.Assert(err == nil, "primary-gc-no-error")
		_, _, err = s.index.VerifGC(context.Background(), true)
		vrt.Assert(err == nil, "index-gc-no-error")
		checkAll(s, keys, m, "after-early-gc")
		vrt.Cover("h11-early-gc")
	}
	for i := range keys {
		if m.present[i] {
			ok, err := s.Remove(keys[i])
			vrt.Assert(err == nil && ok, "remove-no-error")
			m.present[i] = false
			m.val[i] = nil
		}
	}
	vrt.Assert(s.Flush() == nil, "flush-no-error")
	mp := s.index.Primary.(*mhprimary.MultihashPrimary)
	pLast := mp.VerifFileNum()
	iLast := s.index.VerifFileNum()
	pBase, iBase := mp.VerifBasePath(), s.index.VerifBasePath()

	lowUse := int64(vrt.Int("lowuse", 0, 100))
	cycles := vrt.Param("cycles", 3)
	for cy := 0; cy < cycles; cy++ {
		before, err := s.StorageSize()
		vrt.Assert(err == nil, "storage-size-no-error")
		_, err = mp.GC(context.Background(), lowUse)
		vrt.Assert(err == nil, "primary-gc-no-error")
		_, _, err = s.index.VerifGC(context.Background(), vrt.Choose("scanfree", 2) == 1)
		vrt.Assert(err == nil, "index-gc-no-error")
		after, err := s.StorageSize()
		vrt.Assert(err == nil, "storage-size-no-error")
		vrt.Assert(after <= before, "gc-never-increases-storage-when-nothing-is-live", "cycle", cy)
		vrt.Assert(s.Flush() == nil, "flush-no-error")
		checkAll(s, keys, m, "after-cycle")
	}
	for f := uint32(0); f < pLast; f++ {
		l := fileLen(mhprimary.VerifPrimaryFileName(pBase, f))
		vrt.Assert(l <= 0, "dead-primary-file-released", "file", f, "len", l)
		// "unlinked when it is the oldest file at the time it is visited": without an
		// earlier cycle every file is visited for the first time after it died, in ascending
		// order, so each is the oldest when visited. A file that an earlier cycle emptied
		// while an older file was still live is not visited again (it is not affected by any
		// freelist entry) and stays as a zero-length file until a restart - the statement's
		// wording covers that, so only the release of its bytes is demanded then.
		if !visitedEarly {
			vrt.Assert(l < 0, "dead-primary-file-unlinked-when-oldest", "file", f)
		}
	}
	// index files that no bucket refers into
	referenced := map[uint32]bool{}
	for _, pos := range s.index.VerifBuckets() {
		if pos != 0 {
			_, fn := index.VerifLocalize(pos, s.index.VerifMaxFileSize())
			referenced[fn] = true
		}
	}
	for f := uint32(0); f < iLast; f++ {
		if referenced[f] {
			continue
		}
		l := fileLen(index.VerifIndexFileName(iBase, f))
		vrt.Assert(l <= 0, "unreferenced-index-file-released", "file", f, "len", l)
		vrt.Cover("h11-index-files-released")
	}
	if pLast > 0 {
		vrt.Cover("h11-primary-files-released")
	}
	// fixed point
	before := readDirImage(dir)
	_, err = mp.GC(context.Background(), lowUse)
	vrt.Assert(err == nil, "primary-gc-no-error")
	_, _, err = s.index.VerifGC(context.Background(), true)
	vrt.Assert(err == nil, "index-gc-no-error")
	vrt.Assert(sameDirImage(before, readDirImage(dir)), "further-cycle-writes-nothing")
	vrt.Assert(s.Close() == nil, "close-no-error")
	vrt.Cover("h11-end")
}
