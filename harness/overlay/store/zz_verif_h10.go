package store

import (
	"context"
	"os"
	"path/filepath"

	"github.com/ipld/go-storethehash/internal/vrt"
)

// makeLegacy converts a closed single-file-per-kind store (limits 2^30, so index and
// primary are one file each and positions are plain offsets) into the legacy layout that
// older versions wrote: version-2 index = [u32 header size][version=2, bucket bits] +
// record lists in one file at the index path; unversioned primary = records in one file
// at the data path; no .info files, no bucket snapshot; the freelist keeps its pending
// entries. The record formats themselves did not change between the versions.
func makeLegacy(dir string, bits uint8) {
	ip, dp := filepath.Join(dir, "i"), filepath.Join(dir, "d")
	idx, err := os.ReadFile(ip + ".0")
	vrt.Assert(err == nil, "legacy-setup")
	hdr := []byte{2, 0, 0, 0, 2, bits}
	vrt.Assert(os.WriteFile(ip, append(hdr, idx...), 0o644) == nil, "legacy-setup")
	prim, err := os.ReadFile(dp + ".0")
	vrt.Assert(err == nil, "legacy-setup")
	vrt.Assert(os.WriteFile(dp, prim, 0o644) == nil, "legacy-setup")
	for _, n := range []string{ip + ".0", ip + ".info", ip + ".buckets", dp + ".0", dp + ".info"} {
		os.Remove(n)
	}
}

var optionalCover = []string{"h10-resumed"}

// Verif_H10Upgrade: C10 — a legacy store generated from symbolic map contents (with
// overwritten and removed records, pending freelist entries) upgrades to the chunked
// format with identical contents for symbolic target limits; an interrupted upgrade
// completes on the next open with the same result.
func Verif_H10Upgrade() {
	dir := vrt.TempDir()
	big := vcfg{bits: 8, ifs: 1 << 30, pfs: 1 << 30, primary: MultihashPrimary}
	s, err := openCfg(dir, big)
	vrt.Assert(err == nil, "open-no-error")
	if err != nil {
		return
	}
	keys := mkKeys(vrt.Param("keys", 2), 4, big.bits)
	m := newModel(len(keys))
	scriptedPrefix(s, big, keys, m, 1+vrt.Choose("prefix", vrt.Param("prefixes", 3)))
	n := vrt.Param("ops", 1)
	ops := []int{opPut, opRemove, opFlush}
	for step := 0; step < n; step++ {
		apiStep(s, big, keys, m, ops[vrt.Choose("op", len(ops))], "history")
	}
	vrt.Assert(s.Close() == nil, "close-no-error")
	makeLegacy(dir, big.bits)

	// target limits: symbolic, so the old files split into any number of chunks
	c := symCfg()
	c.bits = big.bits
	c.immutable = false
	open := func(d string) (*Store, error) {
		return OpenStore(context.Background(), c.primary, filepath.Join(d, "d"), filepath.Join(d, "i"), false,
			IndexBitSize(c.bits), IndexFileSize(c.ifs), PrimaryFileSize(c.pfs), GCIntervalNs(1<<40), GCTimeLimitNs(0), SyncIntervalNs(1<<40))
	}
	crash := vrt.Param("crash", 0) != 0
	if crash {
		vrt.CrashBegin(dir)
	}
	u, err := open(dir)
	vrt.Assert(err == nil, "upgrade-open-no-error")
	if err != nil {
		return
	}
	if crash {
		vrt.CrashEnd()
		img := vrt.CrashImage()
		r, err := open(img)
		vrt.Assert(err == nil, "resumed-upgrade-open-no-error")
		if err != nil {
			return
		}
		checkAll(r, keys, m, "resumed-upgrade")
		checkIter(r, keys, m, "resumed-upgrade")
		vrt.Assert(r.Close() == nil, "close-resumed-no-error")
		vrt.Cover(optionalCover[0]) // only reachable when the check enables the crash window
	}
	checkAll(u, keys, m, "upgraded")
	checkIter(u, keys, m, "upgraded")
	_, e1 := os.Stat(filepath.Join(dir, "i"))
	_, e2 := os.Stat(filepath.Join(dir, "d"))
	vrt.Assert(e1 != nil && e2 != nil, "legacy-files-replaced")
	apiStep(u, c, keys, m, []int{opPut, opRemove}[vrt.Choose("after-op", 2)], "after-upgrade")
	vrt.Assert(u.Flush() == nil, "flush-no-error")
	checkAll(u, keys, m, "after-upgrade")
	fsck(u, dir, "after-upgrade")
	vrt.Assert(u.Close() == nil, "close-upgraded-no-error")
	u2, err := open(dir)
	vrt.Assert(err == nil, "reopen-upgraded-no-error")
	if err != nil {
		return
	}
	checkAll(u2, keys, m, "upgraded-reopened")
	vrt.Assert(u2.Close() == nil, "close2-no-error")
	vrt.Cover("h10-end")
}

// Verif_H10Dangling: C10, clause "entries whose primary data no longer exists are dropped
// rather than mis-pointed". The legacy primary lost its tail (the last `dangling` records),
// so the legacy index holds entries whose offsets are not in the primary any more; keys
// are symbolic, so the dangling entries take every position in their buckets' record lists.
func Verif_H10Dangling() {
	dir := vrt.TempDir()
	big := vcfg{bits: 8, ifs: 1 << 30, pfs: 1 << 30, primary: MultihashPrimary}
	s, err := openCfg(dir, big)
	vrt.Assert(err == nil, "open-no-error")
	if err != nil {
		return
	}
	nk, nd := vrt.Param("keys", 4), vrt.Param("dangling", 2)
	keys := mkKeys(nk, 4, big.bits)
	m := newModel(len(keys))
	for i := range keys {
		v := vrt.Bytes("pval", 1)
		vrt.Assert(s.Put(keys[i], v) == nil, "put-no-error", "where", "legacy-history")
		m.set(i, true, v)
	}
	vrt.Assert(s.Close() == nil, "close-no-error")
	makeLegacy(dir, big.bits)
	dp := filepath.Join(dir, "d")
	fi, err := os.Stat(dp)
	vrt.Assert(err == nil, "legacy-setup")
	recSize := int64(4 + len(keys[0]) + 1)
	vrt.Assert(fi.Size() == int64(nk)*recSize, "legacy-setup")
	vrt.Assert(os.Truncate(dp, fi.Size()-int64(nd)*recSize) == nil, "legacy-setup")
	for i := nk - nd; i < nk; i++ {
		m.set(i, false, nil) // this key's data no longer exists
	}

	c := symCfg()
	c.bits = big.bits
	c.immutable = false
	open := func(d string) (*Store, error) {
		return OpenStore(context.Background(), c.primary, filepath.Join(d, "d"), filepath.Join(d, "i"), false,
			IndexBitSize(c.bits), IndexFileSize(c.ifs), PrimaryFileSize(c.pfs), GCIntervalNs(1<<40), GCTimeLimitNs(0), SyncIntervalNs(1<<40))
	}
	u, err := open(dir)
	vrt.Assert(err == nil, "upgrade-open-no-error")
	if err != nil {
		return
	}
	checkAll(u, keys, m, "upgraded-with-lost-tail")
	checkIter(u, keys, m, "upgraded-with-lost-tail")
	if vrt.Param("afterop", 1) != 0 {
		apiStep(u, c, keys, m, []int{opPut, opRemove}[vrt.Choose("after-op", 2)], "after-upgrade")
	}
	vrt.Assert(u.Flush() == nil, "flush-no-error")
	checkAll(u, keys, m, "after-upgrade")
	fsck(u, dir, "after-upgrade")
	vrt.Assert(u.Close() == nil, "close-upgraded-no-error")
	u2, err := open(dir)
	vrt.Assert(err == nil, "reopen-upgraded-no-error")
	if err != nil {
		return
	}
	checkAll(u2, keys, m, "upgraded-reopened")
	vrt.Assert(u2.Close() == nil, "close2-no-error")
	vrt.Cover("h10d-end")
}
