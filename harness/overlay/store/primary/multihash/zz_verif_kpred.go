package mhprimary

import (
	"bytes"
	"os"
	"path/filepath"

	"github.com/ipld/go-storethehash/internal/vrt"
	"github.com/ipld/go-storethehash/store/filecache"
	"github.com/ipld/go-storethehash/store/freelist"
	"github.com/ipld/go-storethehash/store/types"
)

// Verif_KPRED: C01 kernel — the location predicted by Put is where Flush writes the
// record, across file rollover, for every file-size limit; Get returns the record from
// the unflushed pool, the just-flushed pool and disk alike (nil, empty and non-empty values).
func Verif_KPRED() {
	dir := vrt.TempDir()
	base := filepath.Join(dir, "p")
	maxFileSize := vrt.U32("maxfilesize")
	vrt.Assume(maxFileSize >= 1)
	vrt.Assume(maxFileSize <= 1<<30)
	// arbitrary start state: current file number and its length
	startFile := uint32([]int{0, 3}[vrt.Choose("startfile", 2)])
	startLen := []int{0, 9, 40}[vrt.Choose("startlen", 3)]
	if startLen > 0 || startFile > 0 {
		junk := make([]byte, startLen)
		vrt.Assert(os.WriteFile(primaryFileName(base, startFile), junk, 0o644) == nil, "setup")
		h := newHeader(maxFileSize)
		h.FirstFile = startFile
		vrt.Assert(writeHeader(filepath.Clean(base)+".info", h) == nil, "setup")
	}
	fl, err := freelist.Open(filepath.Join(dir, "free"))
	vrt.Assert(err == nil, "setup")
	mp, err := Open(base, fl, filecache.New(2), maxFileSize)
	vrt.Assert(err == nil, "open-no-error")
	if err != nil {
		return
	}
	type rec struct {
		key, val []byte
		blk      types.Block
	}
	var recs []rec
	check := func(where string) {
		for i, r := range recs {
			k, v, err := mp.Get(r.blk)
			vrt.Assert(err == nil, "get-no-error", "where", where, "rec", i)
			if err != nil {
				continue
			}
			vrt.Assert(k != nil, "get-finds-record", "where", where, "rec", i)
			vrt.Assert(bytes.Equal(k, r.key), "get-returns-own-key", "where", where, "rec", i)
			vrt.Assert(bytes.Equal(v, r.val), "get-returns-own-value", "where", where, "rec", i)
		}
	}
	rounds := vrt.Param("rounds", 2)
	M := vrt.Param("records", 2)
	for round := 0; round < rounds; round++ {
		m := vrt.Choose("m", M+1)
		for i := 0; i < m; i++ {
			d := vrt.Bytes("digest", 4)
			key := append([]byte{0x00, 4}, d...)
			var val []byte
			if n := vrt.Choose("vlen", 4); n > 0 {
				val = vrt.Bytes("value", n-1)
			}
			blk, err := mp.Put(key, val)
			vrt.Assert(err == nil, "put-no-error")
			vrt.Assert(int(blk.Size) == len(key)+len(val), "put-reports-record-size")
			for _, o := range recs {
				vrt.Assert(o.blk.Offset != blk.Offset, "locations-distinct")
			}
			recs = append(recs, rec{key, val, blk})
		}
		check("unflushed")
		_, err := mp.Flush()
		vrt.Assert(err == nil, "flush-no-error")
		check("just-flushed")
		mp.curPool = newBlockPool()
		check("disk")
	}
	vrt.Assert(mp.Close() == nil, "close-no-error")
	vrt.Cover("kpred-end")
}
