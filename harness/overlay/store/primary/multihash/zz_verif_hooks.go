package mhprimary

import (
	"encoding/binary"
	"os"

	"github.com/ipld/go-storethehash/store/types"
)

// In-package accessors for harnesses of other packages (overlay only).
func (mp *MultihashPrimary) VerifFileNum() uint32     { return mp.fileNum }
func (mp *MultihashPrimary) VerifBasePath() string    { return mp.basePath }
func (mp *MultihashPrimary) VerifMaxFileSize() uint32 { return mp.maxFileSize }
func VerifPrimaryFileName(base string, n uint32) string { return primaryFileName(base, n) }
func VerifReadHeader(base string) (Header, error)     { return readHeader(base + ".info") }

// VerifFreedOnDisk reports whether the record at blk is gone from disk: its file does
// not exist, ends before the record, or the record carries the deleted bit.
func (mp *MultihashPrimary) VerifFreedOnDisk(blk types.Block) bool {
	localPos, fileNum := localizePrimaryPos(blk.Offset, mp.maxFileSize)
	f, err := os.Open(primaryFileName(mp.basePath, fileNum))
	if err != nil {
		return true
	}
	defer f.Close()
	buf := make([]byte, 4)
	if _, err = f.ReadAt(buf, int64(localPos)); err != nil {
		return true
	}
	return binary.LittleEndian.Uint32(buf)&deletedBit != 0
}
