package mhprimary

import (
	"bytes"
	"context"
	"encoding/binary"
	"errors"
	"os"
	"path/filepath"

	"github.com/ipld/go-storethehash/internal/vrt"
	"github.com/ipld/go-storethehash/store/filecache"
	"github.com/ipld/go-storethehash/store/freelist"
	"github.com/ipld/go-storethehash/store/types"
)

type kRec struct {
	key, val []byte
	start    int // local offset of the size prefix
	size     int // record size (key+value)
	deleted  bool
	named    bool // exactly named by a freelist entry
	file     uint32
}

// cancelCtx reports cancellation after a number of Err() checks.
type cancelCtx struct {
	context.Context
	left int
}

func (c *cancelCtx) Err() error {
	if c.left == 0 {
		return context.Canceled
	}
	c.left--
	return nil
}

var optionalCoverKPGC = []string{"kpgc-drained", "kpgc-idle-between-cycles"}

type idxUpdate struct {
	key []byte
	blk types.Block
}

// buildPrimaryFile returns the bytes of a primary file holding r records with
// symbolic keys, values and deleted bits; record sizes are structural choices.
func buildPrimaryFile(r int, label string) ([]byte, []*kRec) {
	var data []byte
	var recs []*kRec
	for i := 0; i < r; i++ {
		L := 4
		d := vrt.Bytes(label+"-digest", L)
		key := append([]byte{0x00, byte(L)}, d...)
		val := vrt.Bytes(label+"-value", vrt.Choose(label+"-vlen", vrt.Param("vmax", 2)+1))
		// no two records carry the same key (an index names one record per key)
		for _, o := range recs {
			vrt.Assume(!bytes.Equal(o.key, key))
		}
		rec := &kRec{key: key, val: val, start: len(data), size: len(key) + len(val)}
		rec.deleted = vrt.Bool(label + "-deleted")
		sz := uint32(rec.size)
		if rec.deleted {
			sz |= deletedBit
		}
		hdr := make([]byte, 4)
		binary.LittleEndian.PutUint32(hdr, sz)
		data = append(data, hdr...)
		data = append(data, key...)
		data = append(data, val...)
		recs = append(recs, rec)
	}
	return data, recs
}

// Verif_KPGC: primary GC step from an arbitrary non-current primary file and an
// arbitrary freelist (C04/C11/C13 kernel): live records not named by the freelist stay
// readable byte-identically (in place or at the location handed to the index update),
// named ones read as deleted, nothing panics.
func Verif_KPGC() {
	dir := vrt.TempDir()
	base := filepath.Join(dir, "p")
	R := vrt.Param("records", 3)
	r := 1 + vrt.Choose("r", R)
	data0, recs := buildPrimaryFile(r, "f0")
	lastStart := recs[len(recs)-1].start

	// file-size limit: every record of file 0 starts below it. The arithmetic that maps
	// positions to files is decided for every limit by K-POS; here the limit is drawn
	// from the values that matter for this layout (smallest legal, exactly the file
	// length, one more, the default), keeping byte-level and size reasoning apart.
	limits := []uint32{uint32(lastStart) + 1, uint32(len(data0)), uint32(len(data0)) + 1, 1 << 30}
	maxFileSize := limits[vrt.Choose("maxfilesize", len(limits))]

	vrt.Assert(os.WriteFile(primaryFileName(base, 0), data0, 0o644) == nil, "setup")
	// current file (file 1): empty or holding one live record
	var cur []*kRec
	var data1 []byte
	if vrt.Choose("cur-nonempty", 2) == 1 {
		data1, cur = buildPrimaryFile(1, "f1")
		vrt.Assume(!cur[0].deleted)
		for _, rec := range recs {
			vrt.Assume(!bytes.Equal(rec.key, cur[0].key))
		}
	}
	vrt.Assert(os.WriteFile(primaryFileName(base, 1), data1, 0o644) == nil, "setup")
	vrt.Assert(writeHeader(filepath.Clean(base)+".info", newHeader(maxFileSize)) == nil, "setup")

	fl, err := freelist.Open(filepath.Join(dir, "free"))
	vrt.Assert(err == nil, "setup")
	fc := filecache.New(4)
	mp, err := Open(base, fl, fc, maxFileSize)
	vrt.Assert(err == nil, "open-no-error")
	if err != nil {
		return
	}
	vrt.Assert(mp.fileNum == 1, "setup-current-file", "filenum", mp.fileNum, "files", len(vrt.ListDir(dir)))

	// freelist entries
	F := vrt.Param("freelist", 2)
	nf := vrt.Choose("nfree", F+1)
	var entries []types.Block
	for j := 0; j < nf; j++ {
		var blk types.Block
		blk.Size = types.Size(vrt.U32("free-size"))
		switch w := vrt.Choose("free-where", r+3); {
		case w < r: // start of record w of file 0
			blk.Offset = absolutePrimaryPos(types.Position(recs[w].start), 0, maxFileSize)
			if blk.Size == types.Size(recs[w].size) {
				recs[w].named = true
			}
		case w == r: // at/after the end of file 0 (stale entry)
			local := len(data0) + vrt.Choose("free-beyond", 2)*5
			vrt.Assume(uint32(local) < maxFileSize) // otherwise the position belongs to a later file
			blk.Offset = absolutePrimaryPos(types.Position(local), 0, maxFileSize)
		case w == r+1: // in the current file
			blk.Offset = absolutePrimaryPos(0, 1, maxFileSize)
			if len(cur) > 0 && blk.Size == types.Size(cur[0].size) {
				cur[0].named = true
			}
		default: // in a file that does not exist
			blk.Offset = absolutePrimaryPos(0, 7, maxFileSize)
		}
		vrt.Assert(fl.Put(blk) == nil, "setup")
		entries = append(entries, blk)
	}
	flPath := filepath.Join(dir, "free")
	// pending returns the freelist entries not yet consumed by GC (pool, file, .gc)
	pending := func() []types.Block {
		out := fl.VerifPool()
		for _, name := range []string{flPath, flPath + ".gc"} {
			b, err := os.ReadFile(name)
			if err != nil {
				continue
			}
			for p := 0; p+12 <= len(b); p += 12 {
				out = append(out, types.Block{Offset: types.Position(binary.LittleEndian.Uint64(b[p:])), Size: types.Size(binary.LittleEndian.Uint32(b[p+8:]))})
			}
		}
		return out
	}
	// conservation (C13): an entry that exactly names a live record is applied or still pending
	conserved := func(where string) {
		pend := pending()
		for i, rec := range append(append([]*kRec{}, recs...), cur...) {
			if !rec.named || rec.deleted {
				continue
			}
			old := types.Block{Offset: absolutePrimaryPos(types.Position(rec.start), rec.file, maxFileSize), Size: types.Size(rec.size)}
			isPending := false
			for _, p := range pend {
				if p == old {
					isPending = true
				}
			}
			vrt.Assert(isPending || mp.VerifFreedOnDisk(old), "freelist-entry-applied-or-still-pending", "where", where, "rec", i)
		}
	}

	var updates []idxUpdate
	failUpdate := vrt.Param("failupdate", 0) != 0 && vrt.Choose("update-fails", 2) == 1
	update := func(key []byte, blk types.Block) error {
		updates = append(updates, idxUpdate{append([]byte{}, key...), blk})
		if failUpdate {
			return errors.New("key to update not found in index")
		}
		return nil
	}
	// the setup entries reached the freelist file through a store flush
	_, err = fl.Flush()
	vrt.Assert(err == nil, "setup")
	mp.StartGC(fl, 1<<40, 0, update)

	for _, rec := range cur {
		rec.file = 1
	}
	all := append(append([]*kRec{}, recs...), cur...)
	locOf := func(rec *kRec) types.Block {
		return types.Block{Offset: absolutePrimaryPos(types.Position(rec.start), rec.file, maxFileSize), Size: types.Size(rec.size)}
	}
	check := func(where string) {
		pend := pending()
		for i, rec := range all {
			old := locOf(rec)
			if rec.deleted || rec.named {
				isPending := false
				for _, p := range pend {
					if p == old {
						isPending = true
					}
				}
				if !isPending {
					k, _, err := mp.Get(old)
					vrt.Assert(err != nil || k == nil || !mp.VerifFreedOnDisk(old) == false, "freed-record-reads-as-deleted", "where", where, "rec", i)
				}
				continue
			}
			// live: readable at the newest location the index was told about, else in place
			loc := old
			moved := false
			for _, u := range updates {
				if bytes.Equal(u.key, rec.key[2:]) {
					loc = u.blk
					moved = true
				}
			}
			if moved && failUpdate {
				loc = old // the index still names the old location
			}
			k, v, err := mp.Get(loc)
			vrt.Assert(err == nil, "live-record-readable", "where", where, "rec", i, "moved", moved)
			if err == nil {
				vrt.Assert(k != nil, "live-record-not-deleted", "where", where, "rec", i, "moved", moved)
				if k != nil {
					vrt.Assert(bytes.Equal(k, rec.key), "live-record-key-intact", "where", where, "rec", i, "moved", moved)
					vrt.Assert(bytes.Equal(v, rec.val), "live-record-value-intact", "where", where, "rec", i, "moved", moved)
				}
			}
		}
	}

	lowUse := int64(vrt.Int("lowuse", 0, 100))
	// optionally a first cycle whose context is cancelled after a few checks (Close or a
	// time limit arriving mid-cycle); nothing may be lost by it
	cancelledFirst := false
	if nc := vrt.Param("ctxchecks", 0); nc > 0 {
		if n := vrt.Choose("ctx-cancel-after", nc+1); n < nc {
			cancelledFirst = true
			_, err = mp.GC(&cancelCtx{Context: context.Background(), left: n}, lowUse)
			_ = err // the cycle may complete before the cancellation is noticed
			conserved("after-cancelled-cycle")
			check("after-cancelled-cycle")
			vrt.Cover("kpgc-cancelled")
		}
	}
	_, err = mp.GC(context.Background(), lowUse)
	vrt.Assert(err == nil, "gc-no-error")
	conserved("after-cycle-1")
	check("after-cycle-1")
	n1 := len(updates) // relocations of the first completed cycle (and a cancelled one before it)
	if len(updates) > 0 {
		vrt.Cover("kpgc-relocated")
	}
	if len(updates) > 1 {
		vrt.Cover("kpgc-relocated-two")
	}
	// what a store flush does between cycles: primary, (index,) then freelist - or no
	// flush at all (an idle store: the entries recorded by cycle 1 stay in the pool)
	flushedBetween := vrt.Param("noflush", 1) == 0 || vrt.Choose("flush-between-cycles", 2) == 1
	if flushedBetween {
		_, err = mp.Flush()
		vrt.Assert(err == nil, "flush-no-error")
		_, err = fl.Flush()
		vrt.Assert(err == nil, "freelist-flush-no-error")
		check("after-flush")
	}
	_, err = mp.GC(context.Background(), lowUse)
	vrt.Assert(err == nil, "gc2-no-error")
	check("after-cycle-2")
	conserved("after-cycle-2")
	if !flushedBetween {
		// C13: a record relocated by cycle 1 whose old location is still only in the pool
		// must not be relocated again by cycle 2 (the second copy would supersede the
		// first, which nothing records)
		// (a copy that cycle 1 put into a file which has meanwhile become non-current may
		// itself be relocated - that records the copy's location, not the original's)
		pend := pending()
		for i, rec := range all {
			if rec.named || rec.deleted {
				continue
			}
			n := 0
			for _, p := range pend {
				if p == locOf(rec) {
					n++
				}
			}
			vrt.Assert(n <= 1 || cancelledFirst, "old-location-of-a-relocated-record-recorded-once", "rec", i, "times", n)
		}
		vrt.Cover(optionalCoverKPGC[1])
		vrt.Assert(mp.Close() == nil, "close-no-error")
		vrt.Cover("kpgc-end")
		return
	}
	// every location left behind by a relocation in cycle 1 has been freed by cycle 2
	// (C13: relocated => freed exactly once; C11: the drained file can be released)
	if !failUpdate {
		for i, rec := range all {
			if rec.deleted || rec.named {
				continue
			}
			moved := 0
			for _, u := range updates[:n1] {
				if bytes.Equal(u.key, rec.key[2:]) {
					moved++
				}
			}
			if moved >= 1 {
				vrt.Assert(mp.VerifFreedOnDisk(locOf(rec)), "relocated-record-old-location-freed", "rec", i)
			}
		}
	}
	// C11, low-use clause: with threshold 0 every non-current file counts as low-use, so
	// file 0 must be drained by relocation (at most two records per cycle) and released
	// within a bounded number of further cycles (each preceded by what a store flush does);
	// its live records stay readable at the locations handed to the index.
	if lowUse == 0 && !failUpdate && vrt.Param("drain", 1) != 0 {
		for c := 0; c < 3; c++ {
			_, err = mp.Flush()
			vrt.Assert(err == nil, "flush-no-error")
			_, err = fl.Flush()
			vrt.Assert(err == nil, "freelist-flush-no-error")
			_, err = mp.GC(context.Background(), lowUse)
			vrt.Assert(err == nil, "gc-no-error", "where", "drain")
		}
		fi, serr := os.Stat(primaryFileName(base, 0))
		vrt.Assert(serr != nil || fi.Size() == 0, "low-use-file-drained-and-released", "records", r)
		check("after-drain")
		vrt.Cover(optionalCoverKPGC[0])
	}
	vrt.Assert(mp.Close() == nil, "close-no-error")
	vrt.Cover("kpgc-end")
}
