package mhprimary

import (
	"github.com/ipld/go-storethehash/internal/vrt"
	"github.com/ipld/go-storethehash/store/types"
)

// (that the remapped position decodes back to its chunk and offset for every record that
// starts below the limit is K-POS's identity, decided separately)
//
// Verif_KREMAP: C10 kernel — RemapOffset translates an offset of the legacy single
// primary file through an arbitrary list of chunk sizes to the position (file, local
// offset) of the same byte in the chunked layout; out-of-range offsets are refused.
func Verif_KREMAP() {
	C := vrt.Param("chunks", 3)
	c := 1 + vrt.Choose("nchunks", C)
	max := vrt.U32("maxfilesize")
	vrt.Assume(max >= 1)
	vrt.Assume(max <= 1<<30)
	first := vrt.U32("firstfile")
	vrt.Assume(first <= 1<<20)
	sizes := make([]int64, c)
	var total int64
	for i := range sizes {
		s := vrt.U32("chunksize")
		vrt.Assume(s >= 1)
		vrt.Assume(s <= 1<<31)
		sizes[i] = int64(s)
		total += int64(s)
	}
	ir := &IndexRemapper{firstFile: first, maxFileSize: max, sizes: sizes}
	pos := vrt.U64("pos")
	vrt.Assume(pos < 1<<40)
	got, err := ir.RemapOffset(types.Position(pos))
	if int64(pos) >= total {
		vrt.Assert(err != nil, "out-of-range-offset-refused")
		vrt.Cover("kremap-out-of-range")
		return
	}
	vrt.Assert(err == nil, "in-range-offset-accepted")
	// which chunk holds the byte
	var before int64
	for i := range sizes {
		if int64(pos) < before+sizes[i] {
			local := int64(pos) - before
			vrt.Assert(got == absolutePrimaryPos(types.Position(local), first+uint32(i), max), "remapped-to-chunk-and-local-offset", "chunk", i)
			vrt.Cover("kremap-decodes")
			break
		}
		before += sizes[i]
	}
	vrt.Cover("kremap-end")
}
