package mhprimary

import (
	"github.com/ipld/go-storethehash/internal/vrt"
	"github.com/ipld/go-storethehash/store/types"
)

// Verif_KPOS: primary position arithmetic, full width.
func Verif_KPOS() {
	fileNum := vrt.U32("filenum")
	max := vrt.U32("max")
	vrt.Assume(max >= 1)
	vrt.Assume(max <= 1<<30)
	local := vrt.U64("local")
	vrt.Assume(local < uint64(max))
	abs := absolutePrimaryPos(types.Position(local), fileNum, max)
	vrt.Assert(uint64(abs) >= local, "no-64-bit-wrap")
	// The identities below hold unconditionally (position 0 is the first byte of the
	// first file and decodes to (0,0)); the code under test branches on pos == 0 itself.
	lp, fn := localizePrimaryPos(abs, max)
	vrt.Assert(fn == fileNum, "decode-file-number")
	vrt.Assert(uint64(lp) == local, "decode-local-offset")
	ok, fn2 := primaryPosToFileNum(abs, max)
	vrt.Assert(fn2 == fileNum, "file-chosen-by-record-start")
	vrt.Assert(ok == (abs != 0), "zero-means-empty")
	fileNum2 := vrt.U32("filenum2")
	local2 := vrt.U64("local2")
	vrt.Assume(local2 < uint64(max))
	abs2 := absolutePrimaryPos(types.Position(local2), fileNum2, max)
	if fileNum2 == fileNum {
		vrt.Assert((local2 > local) == (abs2 > abs), "monotone-within-file")
	}
	if fileNum2 > fileNum {
		vrt.Assert(abs2 > abs, "later-file-above")
		vrt.Cover("kpos-later-file")
	}
	vrt.Cover("kpos-end")
}
