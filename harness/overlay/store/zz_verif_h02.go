package store

import (
	"os"
	"path/filepath"

	"github.com/ipld/go-storethehash/internal/vrt"
	"github.com/ipld/go-storethehash/store/types"
)

func bucketSnapshot(s *Store) []types.Position {
	b := s.index.VerifBuckets()
	out := make([]types.Position, len(b))
	copy(out, b)
	return out
}

// Verif_H02Reopen: C02 — a clean Close followed by reopen preserves the contents, with
// the bucket snapshot, without it (rescan) and with an unusable one; snapshot and rescan
// rebuild the same bucket table as the live one at Close.
func Verif_H02Reopen() {
	dir := vrt.TempDir()
	c := symCfg()
	c.gc = vrt.Param("withgc", 1) != 0
	s, err := openCfg(dir, c)
	vrt.Assert(err == nil, "open-no-error")
	if err != nil {
		return
	}
	keys := mkKeys(vrt.Param("keys", 2), vrt.Param("diglen", 4), c.bits)
	m := newModel(len(keys))
	scriptedPrefix(s, c, keys, m, vrt.Param("prefix", 0))
	ops := []int{opPut, opRemove, opFlush}
	if c.gc {
		ops = append(ops, opIndexGC, opPrimaryGC)
	}
	n := vrt.Param("ops", 2)
	for step := 0; step < n; step++ {
		op := ops[vrt.Choose("op", len(ops))]
		if op < nBaseOps {
			apiStep(s, c, keys, m, op, "history")
		} else {
			gcStep(s, op, "history")
		}
	}
	if c.gc && vrt.Param("gcbeforeclose", 0) != 0 {
		gcStep(s, opPrimaryGC, "before-close")
		gcStep(s, opIndexGC, "before-close")
		checkAll(s, keys, m, "after-gc-before-close")
	}
	vrt.Assert(s.Close() == nil, "close-no-error")
	live := bucketSnapshot(s) // table as it was saved (Close flushed everything)
	vrt.Assert(s.Close() == nil, "second-close-is-a-no-op")

	// the same directory, reopened through the rescan path
	dirB := vrt.CopyDir(dir)
	snap := filepath.Join(dirB, "i.buckets")
	switch vrt.Choose("snapshot-fate", 2) {
	case 0:
		vrt.Assert(os.Remove(snap) == nil, "setup-remove-snapshot")
	case 1:
		vrt.Assert(os.Truncate(snap, 8*17) == nil, "setup-truncate-snapshot")
	}
	sA, err := openCfg(dir, c)
	vrt.Assert(err == nil, "reopen-with-snapshot-no-error")
	sB, err2 := openCfg(dirB, c)
	vrt.Assert(err2 == nil, "reopen-by-rescan-no-error")
	if err != nil || err2 != nil {
		return
	}
	tA, tB := bucketSnapshot(sA), bucketSnapshot(sB)
	for i := range live {
		vrt.Assert(tA[i] == live[i], "snapshot-reconstructs-live-bucket-table", "bucket", i)
		vrt.Assert(tB[i] == live[i], "rescan-reconstructs-live-bucket-table", "bucket", i)
	}
	checkAll(sA, keys, m, "reopened-snapshot")
	checkAll(sB, keys, m, "reopened-rescan")
	checkIter(sB, keys, m, "reopened-rescan")
	// the reopened store keeps working: one more operation on each
	op := []int{opPut, opRemove}[vrt.Choose("after-op", 2)]
	mB := m.clone()
	apiStep(sB, c, keys, mB, op, "after-reopen")
	checkAll(sB, keys, mB, "after-reopen")
	mA := m
	if vrt.Param("fourthopen", 0) != 0 {
		// the store reopened through the snapshot keeps working too, and what it writes is
		// found again by a later recovery scan (no snapshot)
		mA = m.clone()
		apiStep(sA, c, keys, mA, op, "after-snapshot-reopen")
		checkAll(sA, keys, mA, "after-snapshot-reopen")
	}
	vrt.Assert(sA.Close() == nil, "closeA-no-error")
	vrt.Assert(sB.Close() == nil, "closeB-no-error")
	if vrt.Param("fourthopen", 0) != 0 {
		vrt.Assert(os.Remove(filepath.Join(dir, "i.buckets")) == nil, "setup-remove-snapshot")
		sD, err := openCfg(dir, c)
		vrt.Assert(err == nil, "fourth-open-no-error")
		if err != nil {
			return
		}
		checkAll(sD, keys, mA, "fourth-open-rescan")
		vrt.Assert(sD.Close() == nil, "closeD-no-error")
	}
	// and once more through the snapshot written by sB
	sC, err := openCfg(dirB, c)
	vrt.Assert(err == nil, "third-open-no-error")
	if err != nil {
		return
	}
	checkAll(sC, keys, mB, "third-open")
	vrt.Assert(sC.Close() == nil, "closeC-no-error")
	vrt.Cover("h02-end")
}
