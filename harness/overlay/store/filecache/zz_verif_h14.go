package filecache

import (
	"os"
	"path/filepath"

	"github.com/ipld/go-storethehash/internal/vrt"
)

// Verif_H14Hist: C14 — bounded histories of file-cache operations from New(c); after
// every operation every lent handle is still open, nothing was closed twice, reference
// counts are non-negative and open descriptors <= capacity + lent handles.
func Verif_H14Hist() {
	dir := vrt.TempDir()
	nNames := vrt.Param("names", 3)
	names := make([]string, nNames)
	for i := range names {
		names[i] = filepath.Join(dir, string(rune('a'+i)))
		f, err := os.Create(names[i])
		vrt.Assert(err == nil, "setup-create")
		f.Write([]byte{byte(i)})
		f.Close()
	}
	maxCap := vrt.Param("maxcap", 3)
	capacity := vrt.Int("cap0", 0, maxCap)
	c := New(capacity)
	var lent []*os.File // outstanding handles (one per un-Closed Open)
	maxLent := vrt.Param("maxlent", 3)
	steps := vrt.Param("ops", 4)
	for step := 0; step < steps; step++ {
		switch vrt.Choose("op", 5) {
		case 0: // Open
			if len(lent) >= maxLent {
				vrt.Assume(false)
			}
			i := vrt.Choose("name", nNames)
			f, err := c.Open(names[i])
			vrt.Assert(err == nil, "open-no-error")
			if err != nil {
				return
			}
			vrt.Assert(f.Name() == names[i], "open-returns-named-file")
			lent = append(lent, f)
		case 1: // Close one lent handle
			if len(lent) == 0 {
				vrt.Assume(false)
			}
			j := vrt.Choose("handle", len(lent))
			err := c.Close(lent[j])
			vrt.Assert(err == nil, "close-no-error")
			lent = append(append([]*os.File{}, lent[:j]...), lent[j+1:]...)
		case 2:
			c.Remove(names[vrt.Choose("name", nNames)])
		case 3:
			c.Clear()
		case 4:
			capacity = vrt.Int("newcap", 0, maxCap)
			c.SetCacheSize(capacity)
		}
		checkCache(c, lent, capacity, "step")
	}
	// release everything: every descriptor must end up closed exactly once
	for _, f := range lent {
		vrt.Assert(c.Close(f) == nil, "final-close-no-error")
	}
	c.Clear()
	vrt.Assert(vrt.OpenFiles() == 0, "all-descriptors-released", "open", vrt.OpenFiles())
	vrt.Assert(vrt.DoubleCloses() == 0, "no-double-close")
	vrt.Cover("h14-end")
}

func checkCache(c *FileCache, lent []*os.File, capacity int, where string) {
	for _, f := range lent {
		_, err := f.Stat()
		vrt.Assert(err == nil, "lent-handle-still-open", "where", where)
		b := make([]byte, 1)
		_, err = f.ReadAt(b, 0)
		vrt.Assert(err == nil, "lent-handle-readable", "where", where)
	}
	vrt.Assert(vrt.DoubleCloses() == 0, "no-double-close", "where", where)
	vrt.Assert(vrt.OpenFiles() <= capacity+len(lent), "descriptors-bounded-by-capacity-plus-lent", "where", where, "open", vrt.OpenFiles(), "cap", capacity, "lent", len(lent))
	vrt.Assert(c.Len() <= capacity || capacity == 0 && c.Len() == 0, "len-bounded-by-capacity", "where", where)
	vrt.Assert(c.Cap() == capacity, "cap-reports-capacity", "where", where)
	for _, elem := range c.cache {
		vrt.Assert(elem.Value.(*entry).refs >= 0, "refs-non-negative", "where", where)
	}
	for _, refs := range c.removed {
		vrt.Assert(refs > 0, "removed-refs-positive", "where", where)
	}
}
