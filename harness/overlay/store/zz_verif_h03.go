package store

import (
	"bytes"
	"context"
	"encoding/binary"
	"os"
	"path/filepath"

	"github.com/ipld/go-storethehash/internal/vrt"
	mhprimary "github.com/ipld/go-storethehash/store/primary/multihash"
)

// kstate is one acknowledged state of a key.
type kstate struct {
	present bool
	val     []byte
}

// allowedAfterCrash: per key, the state at the last completed flush and every state
// acknowledged after it.
type allowed [][]kstate

func (a allowed) add(i int, m *model) {
	a[i] = append(a[i], kstate{m.present[i], m.val[i]})
}

// Verif_H03Crash: C03 — a process crash between any two file-system operations of a
// window (and with an append torn at any byte) loses nothing that was flushed.
func Verif_H03Crash() {
	dir := vrt.TempDir()
	c := symCfg()
	c.gc = true
	s, err := openCfg(dir, c)
	vrt.Assert(err == nil, "open-no-error")
	if err != nil {
		return
	}
	keys := mkKeys(vrt.Param("keys", 2), vrt.Param("diglen", 4), c.bits)
	m := newModel(len(keys))
	scriptedPrefix(s, c, keys, m, vrt.Param("prefix", 0))
	n := vrt.Param("ops", 1)
	ops := []int{opPut, opRemove, opFlush}
	for step := 0; step < n; step++ {
		apiStep(s, c, keys, m, ops[vrt.Choose("op", len(ops))], "history")
	}
	vrt.Assert(s.Flush() == nil, "flush-no-error")
	// baseline: everything acknowledged so far is flushed
	al := make(allowed, len(keys))
	for i := range keys {
		al.add(i, m)
	}
	window := vrt.Param("window", -1)
	if window < 0 {
		window = vrt.Choose("window", vrt.Param("windows", 5))
	}
	closedFirst := false
	if window == 4 {
		vrt.Assert(s.Close() == nil, "close-no-error")
		closedFirst = true
	}
	vrt.CrashBegin(dir)
	switch window {
	case 0: // acknowledged operations followed by a flush
		w := vrt.Param("winops", 1)
		for step := 0; step < w; step++ {
			op := []int{opPut, opRemove}[vrt.Choose("wop", 2)]
			before := m.clone()
			apiStep(s, c, keys, m, op, "window")
			for i := range keys {
				if m.present[i] != before.present[i] || !bytes.Equal(m.val[i], before.val[i]) || (m.val[i] == nil) != (before.val[i] == nil) {
					al.add(i, m)
				}
			}
		}
		vrt.Assert(s.Flush() == nil, "flush-no-error")
	case 1: // Close (with one unflushed acknowledged operation before it)
		op := []int{opPut, opRemove}[vrt.Choose("wop", 2)]
		apiStep(s, c, keys, m, op, "window")
		for i := range keys {
			al.add(i, m)
		}
		vrt.Assert(s.Close() == nil, "close-no-error")
	case 2: // index GC cycle
		_, _, err := s.index.VerifGC(context.Background(), vrt.Choose("scanfree", 2) == 1)
		vrt.Assert(err == nil, "index-gc-no-error")
	case 3: // primary GC cycle (freelist hand-over, marking, truncation, relocation)
		mp := s.index.Primary.(*mhprimary.MultihashPrimary)
		_, err := mp.GC(context.Background(), int64(vrt.Int("lowuse", 0, 100)))
		vrt.Assert(err == nil, "primary-gc-no-error")
	case 5: // an acknowledged, still unflushed operation followed by a primary GC cycle
		op := []int{opPut, opRemove}[vrt.Choose("wop", 2)]
		apiStep(s, c, keys, m, op, "window")
		for i := range keys {
			al.add(i, m)
		}
		mp := s.index.Primary.(*mhprimary.MultihashPrimary)
		_, err := mp.GC(context.Background(), int64(vrt.Int("lowuse", 0, 100)))
		vrt.Assert(err == nil, "primary-gc-no-error")
	case 4: // opening a cleanly closed store (snapshot load, header reads)
		s2, err := openCfg(dir, c)
		vrt.Assert(err == nil, "reopen-no-error")
		_ = s2
	}
	vrt.CrashEnd()
	_ = closedFirst
	img := vrt.CrashImage()

	// the process is gone; recover from the image
	r, err := OpenStore(context.Background(), c.primary, filepath.Join(img, "d"), filepath.Join(img, "i"), c.immutable,
		IndexBitSize(c.bits), IndexFileSize(c.ifs), PrimaryFileSize(c.pfs), GCIntervalNs(1<<40), GCTimeLimitNs(0), SyncIntervalNs(1<<40))
	vrt.Assert(err == nil, "recovery-open-succeeds", "window", window)
	if err != nil {
		return
	}
	rm := newModel(len(keys))
	for i := range keys {
		v, found, err := r.Get(keys[i])
		vrt.Assert(err == nil, "recovered-get-no-error", "window", window)
		if err != nil {
			return
		}
		ok := false
		for _, st := range al[i] {
			if st.present == found && (!found || bytes.Equal(st.val, v)) {
				ok = true
			}
		}
		vrt.Assert(ok, "recovered-value-is-flushed-or-acknowledged-later", "window", window, "found", found, "states", len(al[i]))
		rm.present[i] = found
		rm.val[i] = v
		// values the key had before are remembered for classifying stale reads
		for _, st := range al[i] {
			if st.present {
				rm.old[i] = append(rm.old[i], st.val)
			}
		}
	}
	// C13 across a crash: whatever the recovered freelist holds (complete entries; a torn
	// last entry is cut off) must not name a location the recovered index still uses
	var pend []byte
	for _, n := range []string{"i.free", "i.free.gc"} {
		b, err := os.ReadFile(filepath.Join(img, n))
		if err == nil {
			pend = append(pend, b[:len(b)/12*12]...)
		}
	}
	for i := range keys {
		if !rm.present[i] {
			continue
		}
		cur, ok := currentLoc(r, keys[i])
		if !ok {
			continue
		}
		for o := 0; o+12 <= len(pend); o += 12 {
			off := binary.LittleEndian.Uint64(pend[o:])
			sz := binary.LittleEndian.Uint32(pend[o+8:])
			vrt.Assert(!(off == uint64(cur.Offset) && sz == uint32(cur.Size)), "recovered-freelist-never-names-a-current-location", "window", window)
		}
	}
	// the recovered store keeps behaving like a map, including through GC
	checkAll(r, keys, rm, "recovered")
	apiStep(r, c, keys, rm, []int{opPut, opRemove}[vrt.Choose("after-op", 2)], "after-recovery")
	vrt.Assert(r.Flush() == nil, "flush-no-error")
	if vrt.Param("aftergc", 1) != 0 {
		mp := r.index.Primary.(*mhprimary.MultihashPrimary)
		_, err = mp.GC(context.Background(), 0)
		vrt.Assert(err == nil, "primary-gc-after-recovery-no-error", "window", window)
		_, _, err = r.index.VerifGC(context.Background(), true)
		vrt.Assert(err == nil, "index-gc-after-recovery-no-error")
	}
	wctx := "after-recovery/" + []string{"ops+flush", "close", "index-gc", "primary-gc", "open", "unflushed-op+primary-gc"}[window]
	if _, e := os.Stat(filepath.Join(img, "i.free.gc")); e == nil {
		wctx += "+leftover-freelist-gc-file" // an interrupted GC left its hand-over file behind
	}
	checkAll(r, keys, rm, wctx)
	vrt.Assert(r.Close() == nil, "close-recovered-no-error")
	vrt.Cover("h03-end")
}
