package store

import (
	"context"
	"errors"

	"github.com/ipld/go-storethehash/internal/vrt"
	mhprimary "github.com/ipld/go-storethehash/store/primary/multihash"
)

// expCtx is a context whose deadline expires after a chosen number of Err() checks.
type expCtx struct {
	context.Context
	left     int
	canceled bool
}

func (c *expCtx) Err() error {
	if c.left == 0 {
		if c.canceled {
			return context.Canceled
		}
		return context.DeadlineExceeded
	}
	c.left--
	return nil
}

// gcCtx returns either a context that never expires or one that expires after
// 0..maxChecks-1 Err() checks (structural choice).
func gcCtx() context.Context {
	max := vrt.Param("ctxchecks", 0)
	if max == 0 {
		return context.Background()
	}
	n := vrt.Choose("ctx-expire-after", max+1)
	if n == max {
		return context.Background()
	}
	return &expCtx{Context: context.Background(), left: n, canceled: vrt.Choose("ctx-canceled", 2) == 1}
}

const (
	opIndexGC = nBaseOps + iota
	opPrimaryGC
	nGCOps
)

func gcStep(s *Store, op int, where string) {
	switch op {
	case opIndexGC:
		scanFree := vrt.Choose("scanfree", 2) == 1
		_, _, err := s.index.VerifGC(gcCtx(), scanFree)
		vrt.Assert(err == nil || err == context.DeadlineExceeded || err == context.Canceled, "index-gc-no-error", "where", where)
	case opPrimaryGC:
		mp, ok := s.index.Primary.(*mhprimary.MultihashPrimary)
		if !ok {
			return
		}
		lowUse := int64(vrt.Int("lowuse", 0, 100))
		_, err := mp.GC(gcCtx(), lowUse)
		vrt.Assert(err == nil || errors.Is(err, context.DeadlineExceeded) || errors.Is(err, context.Canceled), "primary-gc-no-error", "where", where)
	}
}

// scriptedPrefix builds a store state by a fixed script with symbolic data (no
// structural choice besides value nil-ness): the symbolic file-size limits decide
// where files roll over, so each script stands for all layouts its records can take.
func scriptedPrefix(s *Store, c vcfg, keys [][]byte, m *model, which int) {
	put := func(i int) {
		v := vrt.Bytes("pval", vrt.Param("pvlen", 1))
		err := s.Put(keys[i], v)
		if c.immutable && m.present[i] {
			vrt.Assert(isKeyExists(err), "immutable-put-existing-key-fails", "where", "prefix")
			return
		}
		vrt.Assert(err == nil, "put-no-error", "where", "prefix")
		m.set(i, true, v)
	}
	remove := func(i int) {
		ok, err := s.Remove(keys[i])
		vrt.Assert(err == nil, "remove-no-error", "where", "prefix")
		vrt.Assert(ok == m.present[i], "remove-reports-presence", "where", "prefix", "want", m.present[i])
		m.set(i, false, nil)
	}
	flush := func() { vrt.Assert(s.Flush() == nil, "flush-no-error", "where", "prefix") }
	last := len(keys) - 1
	switch which {
	case 0:
	case 1: // overwrite after flush
		put(0)
		put(last)
		flush()
		put(0)
		flush()
	case 2: // one record per flush, then removal
		put(0)
		flush()
		put(last)
		flush()
		remove(0)
		flush()
	case 3: // a file with free and live records (low-use relocation candidate)
		for i := range keys {
			put(i)
		}
		flush()
		remove(0)
		if len(keys) > 2 {
			put(1)
		}
		flush()
		put(0)
		flush()
	case 4: // unflushed overwrite on top of flushed data
		put(0)
		put(last)
		flush()
		put(last)
		put(0)
	case 5: // two live records in a file that is no longer current (needs >= 3 keys)
		put(0)
		put(1)
		flush()
		put(last)
		flush()
	case 6: // overwrite of an unflushed record
		put(0)
		put(0)
	case 8: // a removed key's record still unmarked (its freelist entry is not flushed) next to a later key
		put(0)
		remove(0)
		put(last)
	case 9: // several index files and unflushed work on top
		put(0)
		put(last)
		flush()
		put(0)
		flush()
		put(last)
	case 7: // a dead file between live ones (needs >= 3 keys)
		put(0)
		put(1)
		put(last)
		flush()
		put(last)
		flush()
		remove(1)
		flush()
	}
}

// opAlphabet returns the operations a free step may choose from (params switch
// classes of operations off so that no path is wasted on an excluded choice).
func opAlphabet() []int {
	ops := []int{opPut, opRemove, opFlush}
	if vrt.Param("withget", 0) != 0 {
		ops = append(ops, opGet)
	}
	if vrt.Param("withiter", 0) != 0 {
		ops = append(ops, opIter)
	}
	if vrt.Param("withigc", 1) != 0 {
		ops = append(ops, opIndexGC)
	}
	if vrt.Param("withpgc", 1) != 0 {
		ops = append(ops, opPrimaryGC)
	}
	return ops
}

// Verif_H04GC: C04 — GC cycles at arbitrary positions never change contents.
func Verif_H04GC() {
	dir := vrt.TempDir()
	c := symCfg()
	c.gc = true
	s, err := openCfg(dir, c)
	vrt.Assert(err == nil, "open-no-error")
	if err != nil {
		return
	}
	keys := mkKeys(vrt.Param("keys", 2), vrt.Param("diglen", 4), c.bits)
	m := newModel(len(keys))
	scriptedPrefix(s, c, keys, m, vrt.Param("prefix", 0))
	n := vrt.Param("ops", 4)
	ops := opAlphabet()
	for step := 0; step < n; step++ {
		op := ops[vrt.Choose("op", len(ops))]
		if op < nBaseOps {
			apiStep(s, c, keys, m, op, "history")
		} else {
			gcStep(s, op, "history")
			checkAll(s, keys, m, "after-gc")
		}
	}
	checkAll(s, keys, m, "end")
	checkIter(s, keys, m, "end")
	if vrt.Param("crashcopy", 0) != 0 {
		// C03 at the end of a history with GC cycles: once Flush has returned, a crash
		// (here: a copy of the directory taken while the store is still open) loses nothing
		// that was acknowledged before the flush
		vrt.Assert(s.Flush() == nil, "flush-no-error", "where", "end")
		img := vrt.CopyDir(dir)
		r, err := openCfg(img, c)
		vrt.Assert(err == nil, "recovery-open-succeeds", "where", "copy-after-flush")
		if err == nil {
			checkAll(r, keys, m, "crash-copy-after-completed-flush")
			vrt.Assert(r.Close() == nil, "close-recovered-no-error")
		}
	}
	if vrt.Param("endfsck", 0) != 0 {
		// the independent reader of the file formats, including "no orphan records"
		// (set orphans=1): GC must not leave anything that nothing can release
		vrt.Assert(s.Flush() == nil, "flush-no-error", "where", "end")
		fsck(s, dir, "end")
	}
	vrt.Assert(s.Close() == nil, "close-no-error")
	s2, err := openCfg(dir, c)
	vrt.Assert(err == nil, "reopen-no-error")
	if err != nil {
		return
	}
	checkAll(s2, keys, m, "reopened")
	vrt.Assert(s2.Close() == nil, "close2-no-error")
	vrt.Cover("h04-end")
}
