package store

import (
	"github.com/ipld/go-storethehash/internal/vrt"
)

// Verif_H01Seq: C01 — bounded API histories from the empty store against a map model.
func Verif_H01Seq() {
	dir := vrt.TempDir()
	c := symCfg()
	s, err := openCfg(dir, c)
	vrt.Assert(err == nil, "open-no-error")
	if err != nil {
		return
	}
	keys := mkKeys(vrt.Param("keys", 2), vrt.Param("diglen", 4), c.bits)
	m := newModel(len(keys))
	// optional scripted prefix (symbolic data, symbolic file-size limits): histories longer
	// than the free operations alone reach, e.g. a record list that is read back from disk
	// after its file was rolled over and its pool copy replaced by a later flush
	scriptedPrefix(s, c, keys, m, vrt.Param("prefix", 0))
	n := vrt.Param("ops", 3)
	for step := 0; step < n; step++ {
		op := vrt.Choose("op", nBaseOps)
		apiStep(s, c, keys, m, op, "history")
	}
	checkAll(s, keys, m, "end")
	checkIter(s, keys, m, "end")
	vrt.Assert(s.Close() == nil, "close-no-error")
	vrt.Cover("h01-end")
}
