package store

import (
	"github.com/ipld/go-storethehash/internal/vrt"
)

// Verif_H07Fsck: C07 — after every Flush, after GC cycles, after Close and after reopen
// the files agree with each other (independent reader vfsck).
func Verif_H07Fsck() {
	dir := vrt.TempDir()
	c := symCfg()
	c.gc = true
	s, err := openCfg(dir, c)
	vrt.Assert(err == nil, "open-no-error")
	if err != nil {
		return
	}
	keys := mkKeys(vrt.Param("keys", 2), vrt.Param("diglen", 4), c.bits)
	m := newModel(len(keys))
	scriptedPrefix(s, c, keys, m, vrt.Param("prefix", 0))
	vrt.Assert(s.Flush() == nil, "flush-no-error")
	fsck(s, dir, "after-prefix")
	n := vrt.Param("ops", 2)
	ops := []int{opPut, opRemove, opFlush, opIndexGC, opPrimaryGC}
	for step := 0; step < n; step++ {
		op := ops[vrt.Choose("op", len(ops))]
		if op < nBaseOps {
			apiStep(s, c, keys, m, op, "history")
		} else {
			vrt.Assert(s.Flush() == nil, "flush-no-error")
			gcStep(s, op, "history")
			vrt.Assert(s.Flush() == nil, "flush-no-error")
			fsck(s, dir, "after-gc")
		}
		if op == opFlush {
			fsck(s, dir, "after-flush")
		}
	}
	vrt.Assert(s.Flush() == nil, "flush-no-error")
	fsck(s, dir, "end")
	vrt.Assert(s.Close() == nil, "close-no-error")
	fsck(s, dir, "closed")
	s2, err := openCfg(dir, c)
	vrt.Assert(err == nil, "reopen-no-error")
	if err != nil {
		return
	}
	fsck(s2, dir, "reopened")
	checkAll(s2, keys, m, "reopened")
	vrt.Assert(s2.Close() == nil, "close2-no-error")
	vrt.Cover("h07-end")
}
