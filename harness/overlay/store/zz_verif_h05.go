package store

import (
	"bytes"

	"github.com/ipld/go-storethehash/internal/vrt"
)

type cOp struct {
	kind int // opPut, opGet, opRemove
	key  int
	val  []byte
	// results
	err     error
	found   bool
	got     []byte
	removed bool
}

func (o *cOp) run(s *Store, keys [][]byte) {
	switch o.kind {
	case opPut:
		o.err = s.Put(keys[o.key], o.val)
	case opGet:
		o.got, o.found, o.err = s.Get(keys[o.key])
	case opRemove:
		o.removed, o.err = s.Remove(keys[o.key])
	case opFlush:
		o.err = s.Flush()
	}
}

// matches applies the operation to the map model and reports (as one boolean, no
// path fork) whether the recorded result is what the model gives.
func (o *cOp) matches(m *model, immutable bool) bool {
	switch o.kind {
	case opPut:
		if immutable && m.present[o.key] {
			return isKeyExists(o.err)
		}
		m.set(o.key, true, o.val)
		return o.err == nil
	case opGet:
		ok := vrt.And(o.err == nil, o.found == m.present[o.key])
		if m.present[o.key] {
			ok = vrt.And(ok, bytes.Equal(o.got, m.val[o.key]))
		}
		return ok
	case opRemove:
		ok := vrt.And(o.err == nil, o.removed == m.present[o.key])
		m.set(o.key, false, nil)
		return ok
	case opFlush:
		return o.err == nil
	}
	return false
}

// finalMatches: the store's final contents equal the model's.
func finalMatches(finals []cOp, m *model) bool {
	ok := true
	for i := range finals {
		ok = vrt.And(ok, vrt.And(finals[i].err == nil, finals[i].found == m.present[i]))
		if m.present[i] {
			ok = vrt.And(ok, bytes.Equal(finals[i].got, m.val[i]))
		}
	}
	return ok
}

func symOp(kinds []int, nkeys int) *cOp {
	o := &cOp{kind: kinds[vrt.Choose("ckind", len(kinds))], key: vrt.Choose("ckey", nkeys)}
	if o.kind == opPut {
		o.val = vrt.Bytes("cval", 1)
	}
	return o
}

// Verif_H05Lin: C05 — two concurrent foreground calls (plus an optional concurrent
// Flush) on keys free to share a bucket and stored prefix bytes: every call returns
// without error and results + final contents equal some linearization of the map model.
func Verif_H05Lin() {
	dir := vrt.TempDir()
	c := vcfg{bits: 8, primary: MultihashPrimary}
	switch vrt.Choose("sizes", vrt.Param("sizechoices", 2)) {
	case 0:
		c.ifs, c.pfs = 1<<30, 1<<30
	case 1:
		c.ifs, c.pfs = 1, 1 // every record starts a new file
	}
	c.immutable = vrt.Param("immutable", 0) == 1
	s, err := openCfg(dir, c)
	vrt.Assert(err == nil, "open-no-error")
	if err != nil {
		return
	}
	keys := mkKeys(vrt.Param("keys", 2), 4, c.bits)
	base := newModel(len(keys))
	// sequential prefix: optionally key 0 present (flushed or not)
	switch vrt.Choose("prefix", 3) {
	case 1, 2:
		v := vrt.Bytes("pval", 1)
		vrt.Assert(s.Put(keys[0], v) == nil, "put-no-error")
		base.present[0], base.val[0] = true, v
		if vrt.Choose("prefix-flush", 2) == 1 {
			vrt.Assert(s.Flush() == nil, "flush-no-error")
		}
	}
	pick := func(mask int, all []int) []int {
		var out []int
		for i, k := range all {
			if mask&(1<<i) != 0 {
				out = append(out, k)
			}
		}
		return out
	}
	a := symOp(pick(vrt.Param("akinds", 3), []int{opPut, opRemove}), len(keys))
	b := symOp(pick(vrt.Param("bkinds", 7), []int{opPut, opGet, opRemove}), len(keys))
	withFlush := vrt.Param("flusher", 1) == 2 || (vrt.Param("flusher", 1) == 1 && vrt.Choose("with-flush", 2) == 1)
	var flushErr error
	vrt.Quiesce()
	vrt.SchedBegin()
	da, db, df := make(chan struct{}), make(chan struct{}), make(chan struct{})
	go func() {
		a.run(s, keys)
		close(da)
	}()
	go func() {
		b.run(s, keys)
		close(db)
	}()
	if withFlush {
		go func() {
			flushErr = s.Flush()
			close(df)
		}()
	}
	<-da
	<-db
	if withFlush {
		<-df
		vrt.Assert(flushErr == nil, "concurrent-flush-no-error")
	}
	vrt.SchedEnd()
	// quiescent: read the final contents
	finals := make([]cOp, len(keys))
	for i := range keys {
		finals[i] = cOp{kind: opGet, key: i}
		finals[i].run(s, keys)
	}
	vrt.Assert(a.err == nil || (c.immutable && isKeyExists(a.err)), "concurrent-call-returns-no-error", "kind", a.kind, "other", b.kind, "samekey", a.key == b.key)
	vrt.Assert(b.err == nil || (c.immutable && isKeyExists(b.err)), "concurrent-call-returns-no-error", "kind", b.kind, "other", a.kind, "samekey", a.key == b.key)
	// linearizable: a;b or b;a explains every result and the final contents
	m1 := base.clone()
	ab := vrt.And(vrt.And(a.matches(m1, c.immutable), b.matches(m1, c.immutable)), finalMatches(finals, m1))
	m2 := base.clone()
	ba := vrt.And(vrt.And(b.matches(m2, c.immutable), a.matches(m2, c.immutable)), finalMatches(finals, m2))
	vrt.Assert(vrt.Or(ab, ba), "results-equal-some-linearization", "akind", a.kind, "bkind", b.kind, "samekey", a.key == b.key, "flush", withFlush)
	vrt.Assert(s.Close() == nil, "close-no-error")
	vrt.Cover("h05-end")
}
