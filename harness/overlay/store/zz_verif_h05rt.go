package store

import (
	"bytes"

	"github.com/ipld/go-storethehash/internal/vrt"
)

// Verif_H05RT: C05, real-time clause — "a lookup that starts after a Put (or Remove) of
// its key returned sees that value or a later one". One goroutine performs an
// acknowledged write and then a lookup (of the same or the other key); concurrently one
// or two explicit Flush calls run (two overlapping flushes are legal: Store.Flush can be
// called from anywhere while the background flusher runs) and optionally another
// goroutine writes the other key. Nobody else writes the looked-up key after the write,
// so the lookup must return exactly the model's value.
func Verif_H05RT() {
	dir := vrt.TempDir()
	c := vcfg{bits: 8, primary: MultihashPrimary}
	switch vrt.Choose("sizes", vrt.Param("sizechoices", 2)) {
	case 0:
		c.ifs, c.pfs = 1<<30, 1<<30
	case 1:
		c.ifs, c.pfs = 1, 1 // every record starts a new file
	}
	s, err := openCfg(dir, c)
	vrt.Assert(err == nil, "open-no-error")
	if err != nil {
		return
	}
	keys := mkKeys(2, 4, c.bits)
	m := newModel(len(keys))
	// sequential prefix: each key absent, present and flushed, or present and unflushed
	// pick returns the parameter's value if it is set (>= 0), else a structural choice
	pick := func(param, label string, n int) int {
		if v := vrt.Param(param, -1); v >= 0 {
			return v
		}
		return vrt.Choose(label, n)
	}
	for i := range keys {
		switch pick([]string{"prefix0", "prefix1"}[i], "prefix", 3) {
		case 1:
			v := vrt.Bytes("pval", 1)
			vrt.Assert(s.Put(keys[i], v) == nil, "put-no-error")
			m.set(i, true, v)
			vrt.Assert(s.Flush() == nil, "flush-no-error")
		case 2:
			v := vrt.Bytes("pval", 1)
			vrt.Assert(s.Put(keys[i], v) == nil, "put-no-error")
			m.set(i, true, v)
		}
	}
	w := &cOp{kind: []int{opPut, opRemove}[pick("wkind", "wkind", 2)], key: pick("wkey", "wkey", len(keys))}
	if w.kind == opPut {
		w.val = vrt.Bytes("wval", 1)
	}
	r := &cOp{kind: opGet, key: pick("rkey", "rkey", len(keys))}
	// optional writer of the key that is NOT looked up
	var b *cOp
	if vrt.Param("other", 0) != 0 && vrt.Choose("with-other-writer", 2) == 1 {
		b = &cOp{kind: []int{opPut, opRemove}[vrt.Choose("bkind", 2)], key: 1 - r.key}
		if b.kind == opPut {
			b.val = vrt.Bytes("bval", 1)
		}
		vrt.Assume(b.key != w.key) // one writer per key: the expected value is unambiguous
	}
	nf := vrt.Param("flushers", 2)
	ferr := make([]error, nf)
	vrt.Quiesce()
	vrt.SchedBegin()
	da, db := make(chan struct{}), make(chan struct{})
	df := make([]chan struct{}, nf)
	go func() {
		w.run(s, keys)
		r.run(s, keys)
		close(da)
	}()
	if b != nil {
		go func() {
			b.run(s, keys)
			close(db)
		}()
	}
	for i := 0; i < nf; i++ {
		i := i
		df[i] = make(chan struct{})
		go func() {
			ferr[i] = s.Flush()
			close(df[i])
		}()
	}
	<-da
	if b != nil {
		<-db
	}
	for i := 0; i < nf; i++ {
		<-df[i]
	}
	vrt.SchedEnd()
	for i := 0; i < nf; i++ {
		vrt.Assert(ferr[i] == nil, "concurrent-flush-no-error")
	}
	vrt.Assert(w.err == nil, "concurrent-call-returns-no-error", "kind", w.kind)
	vrt.Assert(r.err == nil, "concurrent-call-returns-no-error", "kind", r.kind)
	if b != nil {
		vrt.Assert(b.err == nil, "concurrent-call-returns-no-error", "kind", b.kind)
	}
	// the write was acknowledged before the lookup started
	if w.kind == opPut {
		m.set(w.key, true, w.val)
	} else {
		vrt.Assert(w.removed == m.present[w.key], "remove-reports-presence")
		m.set(w.key, false, nil)
	}
	vrt.Assert(r.found == m.present[r.key], "lookup-after-acknowledged-write-sees-it", "wkind", w.kind, "samekey", w.key == r.key, "want", m.present[r.key])
	if r.found && m.present[r.key] {
		vrt.Assert(bytes.Equal(r.got, m.val[r.key]), "lookup-after-acknowledged-write-returns-its-value", "wkind", w.kind, "samekey", w.key == r.key)
	}
	if b != nil {
		if b.kind == opPut {
			m.set(b.key, true, b.val)
		} else {
			m.set(b.key, false, nil)
		}
	}
	checkAll(s, keys, m, "quiescent")
	vrt.Assert(s.Flush() == nil, "flush-no-error")
	checkAll(s, keys, m, "flushed")
	vrt.Assert(s.Close() == nil, "close-no-error")
	vrt.Cover("h05rt-end")
}
