package store

import (
	"bytes"
	"context"
	"io"
	"os"
	"path/filepath"

	"github.com/ipld/go-storethehash/internal/vrt"
	"github.com/ipld/go-storethehash/store/freelist"
	mhprimary "github.com/ipld/go-storethehash/store/primary/multihash"
	"github.com/ipld/go-storethehash/store/types"
)

func readFreelistFile(path string) []types.Block {
	f, err := os.Open(path)
	if err != nil {
		return nil
	}
	defer f.Close()
	it := freelist.NewIterator(f)
	var out []types.Block
	for {
		b, err := it.Next()
		if err != nil {
			vrt.Assert(err == io.EOF, "freelist-file-parses-to-the-end")
			return out
		}
		out = append(out, *b)
		if len(out) > 24 {
			vrt.Fail("freelist-file-too-long")
			return out
		}
	}
}

// currentLoc returns the location the index currently names for key i (model says present).
func currentLoc(s *Store, key []byte) (types.Block, bool) {
	ik, err := s.index.Primary.IndexKey(key)
	if err != nil {
		return types.Block{}, false
	}
	blk, found, err := s.index.Get(ik)
	if err != nil || !found {
		return types.Block{}, false
	}
	pk, err := s.index.Primary.GetIndexKey(blk)
	if err != nil || !bytes.Equal(pk, ik) {
		return types.Block{}, false
	}
	return blk, true
}

// Verif_H13Free: C13 — every superseded primary location is on the freelist exactly once
// until the primary GC has applied it; nothing is recorded for new-key Puts, rejected or
// no-op Puts and Removes of absent keys; no current location is ever recorded.
func Verif_H13Free() {
	dir := vrt.TempDir()
	c := symCfg()
	c.gc = true
	s, err := openCfg(dir, c)
	vrt.Assert(err == nil, "open-no-error")
	if err != nil {
		return
	}
	keys := mkKeys(vrt.Param("keys", 2), vrt.Param("diglen", 4), c.bits)
	m := newModel(len(keys))
	var superseded []types.Block
	mp := s.index.Primary.(*mhprimary.MultihashPrimary)
	flPath := filepath.Join(dir, "i.free")

	check := func(where string) {
		var pending []types.Block
		pending = append(pending, s.freelist.VerifPool()...)
		pending = append(pending, readFreelistFile(flPath)...)
		pending = append(pending, readFreelistFile(flPath+".gc")...)
		// (a) nothing pending that was not superseded, nothing twice, nothing current
		for i, p := range pending {
			known := false
			for _, e := range superseded {
				if e == p {
					known = true
				}
			}
			vrt.Assert(known, "freelist-entry-is-a-superseded-location", "where", where)
			for j := 0; j < i; j++ {
				vrt.Assert(pending[j] != p, "freelist-entry-recorded-once", "where", where)
			}
		}
		for i := range keys {
			if !m.present[i] {
				continue
			}
			cur, ok := currentLoc(s, keys[i])
			vrt.Assert(ok, "present-key-has-a-location", "where", where)
			for _, p := range pending {
				vrt.Assert(p != cur, "current-location-never-on-freelist", "where", where)
			}
		}
		// (b) every superseded location is pending, or has been applied by GC
		for _, e := range superseded {
			isPending := false
			for _, p := range pending {
				if p == e {
					isPending = true
				}
			}
			if isPending {
				continue
			}
			vrt.Assert(mp.VerifFreedOnDisk(e), "superseded-location-pending-or-freed", "where", where)
		}
	}

	n := vrt.Param("ops", 3)
	ops := []int{opPut, opRemove, opFlush, opPrimaryGC}
	for step := 0; step < n; step++ {
		switch op := ops[vrt.Choose("op", len(ops))]; op {
		case opPut:
			i := vrt.Choose("key", len(keys))
			v := symValue(vrt.Param("vmax", 1))
			old, had := types.Block{}, false
			if m.present[i] {
				old, had = currentLoc(s, keys[i])
			}
			err := s.Put(keys[i], v)
			switch {
			case c.immutable && m.present[i]:
				vrt.Assert(isKeyExists(err), "immutable-put-existing-key-fails")
			case m.present[i] && bytes.Equal(v, m.val[i]):
				vrt.Assert(err == nil, "put-no-error") // identical re-put: no-op
			default:
				vrt.Assert(err == nil, "put-no-error")
				if m.present[i] && had {
					superseded = append(superseded, old)
				}
				m.present[i] = true
				m.val[i] = v
			}
		case opRemove:
			i := vrt.Choose("key", len(keys))
			old, had := types.Block{}, false
			if m.present[i] {
				old, had = currentLoc(s, keys[i])
			}
			ok, err := s.Remove(keys[i])
			vrt.Assert(err == nil, "remove-no-error")
			vrt.Assert(ok == m.present[i], "remove-reports-presence")
			if m.present[i] && had {
				superseded = append(superseded, old)
			}
			m.present[i] = false
			m.val[i] = nil
		case opFlush:
			vrt.Assert(s.Flush() == nil, "flush-no-error")
		case opPrimaryGC:
			// low-use threshold above 100: no relocation (relocation is C04/K-PGC's subject)
			ctx := gcCtx()
			_, err := mp.GC(ctx, 101)
			vrt.Assert(err == nil || ctx != context.Background(), "primary-gc-no-error")
			vrt.Cover("h13-gc")
		}
		check("step")
	}
	vrt.Assert(s.Close() == nil, "close-no-error")
	s2, err := openCfg(dir, c)
	vrt.Assert(err == nil, "reopen-no-error")
	if err != nil {
		return
	}
	s, mp = s2, s2.index.Primary.(*mhprimary.MultihashPrimary)
	check("reopened")
	checkAll(s, keys, m, "reopened")
	vrt.Assert(s.Close() == nil, "close2-no-error")
	vrt.Cover("h13-end")
}
