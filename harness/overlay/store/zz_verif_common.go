package store

import (
	"bytes"
	"context"
	"io"
	"path/filepath"

	"github.com/ipld/go-storethehash/internal/vfsck"
	"github.com/ipld/go-storethehash/internal/vrt"
	"github.com/ipld/go-storethehash/store/types"
)

// ---- shared helpers for the API-level harnesses (B-API bounds of DESIGN.md §4) ----

type vcfg struct {
	bits      uint8
	ifs, pfs  uint32
	immutable bool
	primary   string
	gc        bool
	sync      bool // SyncOnFlush
}

// symCfg draws a configuration: file-size limits symbolic in [1,2^30], bit size by
// structural choice, immutable flag symbolic.
func symCfg() vcfg {
	c := vcfg{primary: MultihashPrimary}
	if vrt.Param("cidprimary", 0) != 0 {
		c.primary = CIDPrimary // single-file primary keyed by CID; the index key is the digest
	}
	switch vrt.Choose("bits", vrt.Param("bitchoices", 1)) {
	case 0:
		c.bits = 8
	case 1:
		c.bits = 12
	case 2:
		c.bits = 16
	}
	if fixed := vrt.Param("ifs", 0); fixed != 0 {
		// concrete limits chosen by the check configuration
		c.ifs = uint32(fixed)
		if pf := vrt.Param("pfs", fixed); pf >= 0 {
			c.pfs = uint32(pf)
		} else {
			// pfs=-1: concrete index limit, symbolic primary limit
			c.pfs = vrt.U32("pfs")
			vrt.Assume(c.pfs >= 1)
			vrt.Assume(c.pfs <= 1<<30)
		}
	} else if vrt.Param("symsizes", 1) != 0 {
		c.ifs = vrt.U32("ifs")
		c.pfs = vrt.U32("pfs")
		vrt.Assume(c.ifs >= 1)
		vrt.Assume(c.ifs <= 1<<30)
		vrt.Assume(c.pfs >= 1)
		vrt.Assume(c.pfs <= 1<<30)
	} else {
		sizes := []uint32{1, 24, 40, 1 << 30}
		c.ifs = sizes[vrt.Choose("ifs", len(sizes))]
		c.pfs = sizes[vrt.Choose("pfs", len(sizes))]
	}
	switch vrt.Param("immutable", 2) {
	case 0:
		c.immutable = false
	case 1:
		c.immutable = true
	default:
		c.immutable = vrt.Bool("immutable")
	}
	return c
}

func openCfg(dir string, c vcfg) (*Store, error) {
	gci := 0
	if c.gc {
		gci = 1 << 40
	}
	return OpenStore(context.Background(), c.primary, filepath.Join(dir, "d"), filepath.Join(dir, "i"), c.immutable,
		IndexBitSize(c.bits), IndexFileSize(c.ifs), PrimaryFileSize(c.pfs), GCIntervalNs(gci), GCTimeLimitNs(0), SyncIntervalNs(1<<40), SyncOnFlush(c.sync))
}

// mkKeys returns K well-formed multihash keys (identity code, L-byte symbolic digest),
// pairwise distinct (equal length, so none is a proper prefix of another). The bits
// that select the bucket are drawn from two values by structural choice (so that the
// bucket table is indexed concretely); every other digest bit is symbolic, so keys
// are free to share a bucket and any number of leading bytes.
func mkKeys(K, L int, bits uint8) [][]byte {
	keys := make([][]byte, K)
	mask := uint32(1)<<bits - 1
	// two adjacent bucket numbers (adjacency matters to whole-index iteration)
	bvals := []uint32{0x5A & mask, 0x5B & mask}
	if vrt.Param("edgebuckets", 0) != 0 {
		// the last and the first bucket of the table, and one in the middle
		bvals = []uint32{mask, 0, 0x5A & mask}
	}
	for i := range keys {
		if vrt.Param("concretekeys", 0) != 0 {
			// fixed digests sharing bucket and first stored byte: for runs whose subject is
			// file layout / GC / reopen rather than key bytes
			d := make([]byte, L)
			d[0], d[1], d[2], d[3] = 0x5A, 0x01, byte(i+1), 0x03
			keys[i] = append([]byte{0x00, byte(L)}, d...)
			continue
		}
		d := vrt.Bytes("digest", L)
		pfx := uint32(d[0]) | uint32(d[1])<<8 | uint32(d[2])<<16 | uint32(d[3])<<24
		vrt.Assume(pfx&mask == bvals[vrt.Choose("bucket", vrt.Param("bucketchoices", 2))])
		keys[i] = append([]byte{0x00, byte(L)}, d...)
		if vrt.Param("cidprimary", 0) != 0 {
			// CIDv1, raw codec, identity multihash
			keys[i] = append([]byte{0x01, 0x55}, keys[i]...)
		}
		for j := 0; j < i; j++ {
			vrt.Assume(!bytes.Equal(keys[i], keys[j]))
		}
	}
	return keys
}

type model struct {
	present []bool
	val     [][]byte
	old     [][][]byte // values the key had before (for classifying stale reads)
}

func newModel(K int) *model {
	return &model{present: make([]bool, K), val: make([][]byte, K), old: make([][][]byte, K)}
}

func (m *model) clone() *model {
	c := newModel(len(m.present))
	copy(c.present, m.present)
	copy(c.val, m.val)
	for i := range m.old {
		c.old[i] = append([][]byte{}, m.old[i]...)
	}
	return c
}

// set records a new state of key i, remembering the previous value.
func (m *model) set(i int, present bool, v []byte) {
	if m.present[i] {
		m.old[i] = append(m.old[i], m.val[i])
	}
	m.present[i] = present
	m.val[i] = v
}

// isStale reports whether v is a value the key had earlier (a resurrected value).
func (m *model) isStale(i int, v []byte) bool {
	stale := false
	for _, o := range m.old[i] {
		stale = vrt.Or(stale, bytes.Equal(o, v))
	}
	return stale
}

// symValue draws a value of length 0..maxLen (nil and empty distinguished).
func symValue(maxLen int) []byte {
	n := vrt.Choose("vlen", maxLen+2)
	if n == 0 {
		return nil
	}
	return vrt.Bytes("val", n-1)
}

func isKeyExists(err error) bool { return err == types.ErrKeyExists }

// checkGet asserts that Get/Has/GetSize of key i agree with the model.
func checkKey(s *Store, keys [][]byte, m *model, i int, where string) {
	v, found, err := s.Get(keys[i])
	vrt.Assert(err == nil, "get-no-error", "where", where)
	vrt.Assert(found == m.present[i], "get-found-matches-model", "where", where, "want", m.present[i], "vlen", len(m.val[i]), "vnil", m.val[i] == nil)
	if found && m.present[i] {
		vrt.Assert(bytes.Equal(v, m.val[i]), "get-value-matches-model", "where", where, "stale", m.isStale(i, v))
	}
	h, err := s.Has(keys[i])
	vrt.Assert(err == nil, "has-no-error", "where", where)
	vrt.Assert(h == m.present[i], "has-matches-model", "where", where, "want", m.present[i])
	sz, found, err := s.GetSize(keys[i])
	vrt.Assert(err == nil, "getsize-no-error", "where", where)
	vrt.Assert(found == m.present[i], "getsize-found-matches-model", "where", where, "want", m.present[i])
	if found && m.present[i] {
		vrt.Assert(int(sz) == len(m.val[i]), "getsize-matches-model", "where", where)
	}
}

func checkAll(s *Store, keys [][]byte, m *model, where string) {
	for i := range keys {
		checkKey(s, keys, m, i, where)
	}
}

// checkIter asserts that whole-store iteration yields exactly the model's pairs.
func checkIter(s *Store, keys [][]byte, m *model, where string) {
	it := s.NewIterator()
	seen := make([]bool, len(keys))
	n := 0
	for {
		k, v, err := it.Next()
		if err == io.EOF {
			break
		}
		vrt.Assert(err == nil, "iter-no-error", "where", where)
		if err != nil {
			return
		}
		n++
		hit := false
		for i := range keys {
			if bytes.Equal(k, keys[i]) {
				hit = true
				vrt.Assert(m.present[i], "iter-key-present-in-model", "where", where)
				vrt.Assert(!seen[i], "iter-no-duplicate", "where", where)
				seen[i] = true
				vrt.Assert(bytes.Equal(v, m.val[i]), "iter-value-matches-model", "where", where)
			}
		}
		vrt.Assert(hit, "iter-known-key", "where", where)
		if n > 2*len(keys)+2 {
			vrt.Fail("iter-terminates", "where", where)
			return
		}
	}
	for i := range keys {
		vrt.Assert(seen[i] == m.present[i], "iter-complete", "where", where, "want", m.present[i])
	}
}

const (
	opPut = iota
	opGet
	opRemove
	opFlush
	opIter
	nBaseOps
)

// apiStep performs one B-API operation and checks it against the model.
func apiStep(s *Store, c vcfg, keys [][]byte, m *model, op int, where string) {
	switch op {
	case opPut:
		i := vrt.Choose("key", len(keys))
		v := symValue(vrt.Param("vmax", 2))
		err := s.Put(keys[i], v)
		if c.immutable && m.present[i] {
			vrt.Assert(isKeyExists(err), "immutable-put-existing-key-fails", "where", where)
		} else {
			vrt.Assert(err == nil, "put-no-error", "where", where)
			m.set(i, true, v)
		}
	case opGet:
		checkKey(s, keys, m, vrt.Choose("key", len(keys)), where)
	case opRemove:
		i := vrt.Choose("key", len(keys))
		ok, err := s.Remove(keys[i])
		vrt.Assert(err == nil, "remove-no-error", "where", where)
		vrt.Assert(ok == m.present[i], "remove-reports-presence", "where", where, "want", m.present[i])
		m.set(i, false, nil)
	case opFlush:
		vrt.Assert(s.Flush() == nil, "flush-no-error", "where", where)
	case opIter:
		checkIter(s, keys, m, where)
	}
}

// fsck runs the independent format reader (C07) against the store's files and live
// bucket table. Call it only at quiescent points after Flush or Close.
func fsck(s *Store, dir string, where string) {
	if vrt.Param("fsck", 1) == 0 {
		return
	}
	tb := s.index.VerifBuckets()
	live := make([]uint64, len(tb))
	for i, p := range tb {
		live[i] = uint64(p)
	}
	var pending []vfsck.Loc
	for _, b := range s.freelist.VerifPool() {
		pending = append(pending, vfsck.Loc{Offset: uint64(b.Offset), Size: uint32(b.Size)})
	}
	vfsck.Check(vfsck.Input{IndexBase: filepath.Join(dir, "i"), PrimaryBase: filepath.Join(dir, "d"), Buckets: live, Pending: pending, Where: where})
}
