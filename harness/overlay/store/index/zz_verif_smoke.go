package index

import (
	"github.com/ipld/go-storethehash/internal/vrt"
)

func Verif_Smoke() {
	a := vrt.Bytes("a", 3)
	b := vrt.Bytes("b", 3)
	i := firstNonCommonByte(a, b)
	vrt.Assert(i <= 3, "le3")
	if i < 3 {
		vrt.Assert(a[i] != b[i], "differs")
	}
	for j := 0; j < i; j++ {
		vrt.Assert(a[j] == b[j], "common")
	}
	vrt.Cover("done")
}

func Verif_SmokeBad() {
	a := vrt.Bytes("a", 3)
	b := vrt.Bytes("b", 3)
	i := firstNonCommonByte(a, b)
	vrt.Assert(i != 2 || a[0] != 7, "bad", "i", i)
}
