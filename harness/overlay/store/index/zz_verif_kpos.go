package index

import (
	"bytes"

	"github.com/ipld/go-storethehash/internal/vrt"
	"github.com/ipld/go-storethehash/store/types"
)

// Verif_KPOS: position arithmetic of the index log, full width: for every file number,
// every file-size limit in [1,2^30] and every record start below the limit,
// decode(encode) is the identity, the encoding is never 0, never wraps and is
// monotone in (file, offset); the file is chosen by where the record starts.
func Verif_KPOS() {
	fileNum := vrt.U32("filenum")
	max := vrt.U32("max")
	vrt.Assume(max >= 1)
	vrt.Assume(max <= 1<<30)
	start := vrt.U64("start") // offset of the size prefix of the record list
	vrt.Assume(start < uint64(max))
	pos := int64(start) + sizePrefixSize // what flushBucket / scanIndexFile encode

	bp := localPosToBucketPos(pos, fileNum, max)
	vrt.Assert(bp != 0, "encoded-position-never-zero")
	vrt.Assert(uint64(bp) >= uint64(pos), "no-64-bit-wrap")
	lp, fn := localizeBucketPos(bp, max)
	vrt.Assert(fn == fileNum, "decode-file-number")
	vrt.Assert(int64(lp) == pos, "decode-local-offset")
	ok, fn2 := bucketPosToFileNum(bp, max)
	vrt.Assert(ok, "position-is-nonempty")
	vrt.Assert(fn2 == fileNum, "file-chosen-by-record-start")

	// monotone: a later (file, start) encodes to a larger position
	fileNum2 := vrt.U32("filenum2")
	start2 := vrt.U64("start2")
	vrt.Assume(start2 < uint64(max))
	bp2 := localPosToBucketPos(int64(start2)+sizePrefixSize, fileNum2, max)
	if fileNum2 > fileNum {
		// the next file's first position is above every position of this file only if the
		// record started below the limit: bp < (fileNum+1)*max + 4
		vrt.Assert(uint64(bp) < (uint64(fileNum)+1)*uint64(max)+sizePrefixSize, "position-below-next-file")
		vrt.Assert(uint64(bp2) >= (uint64(fileNum)+1)*uint64(max)+sizePrefixSize, "later-file-above")
		vrt.Cover("kpos-later-file")
	}
	if fileNum2 == fileNum {
		vrt.Assert((start2 > start) == (bp2 > bp), "monotone-within-file")
		vrt.Assert((start2 == start) == (bp2 == bp), "injective-within-file")
		vrt.Cover("kpos-same-file")
	}
	// empty bucket decodes to "no data"
	z, zf := localizeBucketPos(0, max)
	vrt.Assert(z == 0 && zf == 0, "zero-means-empty")
	vrt.Cover("kpos-end")
}

// Verif_KBKT: bucket selection. For every key of 4..6 bytes and every bit size 8..31
// the bucket is below 2^bits, (bucket, stripped key) determines the key among keys of the
// same length, and keys shorter than 4 bytes are rejected.
func Verif_KBKT() {
	L := 4 + vrt.Choose("len", 3)
	key := vrt.Bytes("key", L)
	bits := vrt.U8("bits")
	vrt.Assume(bits >= 8)
	vrt.Assume(bits <= 31)
	idx := &Index{sizeBits: bits}
	b, err := idx.getBucketIndex(key)
	vrt.Assert(err == nil, "bucket-no-error")
	vrt.Assert(uint64(b) < uint64(1)<<bits, "bucket-below-2^bits")
	sk := stripBucketPrefix(key, bits)
	vrt.Assert(len(sk) == L-int(bits/8), "strip-removes-whole-bytes-only")
	vrt.Assert(len(sk) >= 1, "stripped-key-nonempty")

	key2 := vrt.Bytes("key2", L)
	b2, err := idx.getBucketIndex(key2)
	vrt.Assert(err == nil, "bucket-no-error")
	sk2 := stripBucketPrefix(key2, bits)
	if b == b2 {
		if bytes.Equal(sk, sk2) {
			vrt.Assert(bytes.Equal(key, key2), "bucket-and-stripped-key-determine-key")
			vrt.Cover("kbkt-same")
		}
	}
	short := vrt.Bytes("short", vrt.Choose("shortlen", 4))
	_, err = idx.getBucketIndex(short)
	vrt.Assert(err == types.ErrKeyTooShort, "short-key-rejected")

	// bucket table bounds
	bk, err := NewBuckets(8)
	vrt.Assert(err == nil, "newbuckets")
	bad := BucketIndex(vrt.U32("badindex"))
	vrt.Assume(bad >= 256)
	vrt.Assert(bk.Put(bad, 1) == types.ErrOutOfBounds, "put-out-of-bounds-rejected")
	_, err = bk.Get(bad)
	vrt.Assert(err == types.ErrOutOfBounds, "get-out-of-bounds-rejected")
	good := BucketIndex(vrt.Choose("goodindex", 2) * 255)
	off := types.Position(vrt.U64("off"))
	vrt.Assert(bk.Put(good, off) == nil, "put-in-bounds")
	got, err := bk.Get(good)
	vrt.Assert(err == nil && got == off, "get-returns-put")
	vrt.Cover("kbkt-end")
}
