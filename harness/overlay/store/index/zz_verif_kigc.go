package index

import (
	"bytes"
	"context"
	"encoding/binary"
	"os"
	"path/filepath"

	"github.com/ipld/go-storethehash/internal/vrt"
	"github.com/ipld/go-storethehash/store/filecache"
	"github.com/ipld/go-storethehash/store/types"
)

type iRec struct {
	bucket  BucketIndex
	start   int    // offset of the size prefix
	body    []byte // bucket prefix + record list bytes (what readDiskBucket returns)
	deleted bool
	file    uint32
}

var kBuckets = []BucketIndex{0x00, 0x5A, 0xFF}

// buildIndexFile returns the bytes of an index file of r records: bucket ids by structural
// choice among three, record-list sizes by structural choice, contents and deleted bits symbolic.
func buildIndexFile(r int, file uint32, label string) ([]byte, []*iRec) {
	var data []byte
	var recs []*iRec
	for i := 0; i < r; i++ {
		b := kBuckets[vrt.Choose(label+"-bucket", vrt.Param("nbuckets", len(kBuckets)))]
		n := []int{14, 0}[vrt.Choose(label+"-listlen", vrt.Param("listlens", 2))]
		body := make([]byte, 4, 4+n)
		binary.LittleEndian.PutUint32(body, uint32(b))
		body = append(body, vrt.Bytes(label+"-list", n)...)
		rec := &iRec{bucket: b, start: len(data), body: body, file: file}
		rec.deleted = vrt.Bool(label + "-deleted")
		sz := uint32(len(body))
		if rec.deleted {
			sz |= deletedBit
		}
		hdr := make([]byte, 4)
		binary.LittleEndian.PutUint32(hdr, sz)
		data = append(data, hdr...)
		data = append(data, body...)
		recs = append(recs, rec)
	}
	return data, recs
}

// newestPerBucket returns, per bucket, the last non-deleted record in log order.
func newestPerBucket(recs []*iRec) map[BucketIndex]*iRec {
	out := map[BucketIndex]*iRec{}
	for _, rec := range recs {
		if !rec.deleted {
			out[rec.bucket] = rec
		}
	}
	return out
}

// Verif_KIGC: one index GC pass over an arbitrary non-current index file (C04/C11 kernel).
func Verif_KIGC() {
	dir := vrt.TempDir()
	base := filepath.Join(dir, "i")
	R := vrt.Param("records", 3)
	r := 1 + vrt.Choose("r", R)
	data0, recs := buildIndexFile(r, 0, "f0")
	lastStart := recs[len(recs)-1].start
	limits := []uint32{1 << 30, uint32(lastStart) + 1, uint32(len(data0)), uint32(len(data0)) + 1}
	maxFileSize := limits[vrt.Choose("maxfilesize", vrt.Param("nlimits", len(limits)))]

	// optional torn tail: a size prefix announcing more bytes than are present
	torn := 0
	if vrt.Param("torn", 1) != 0 {
		torn = vrt.Choose("torn-tail", 3) // 0 none, 1 partial size prefix, 2 partial body
	}
	file0 := append([]byte{}, data0...)
	switch torn {
	case 1:
		file0 = append(file0, vrt.Bytes("torn-bytes", 2)...)
	case 2:
		hdr := make([]byte, 4)
		binary.LittleEndian.PutUint32(hdr, 18)
		file0 = append(append(file0, hdr...), vrt.Bytes("torn-bytes", 5)...)
	}
	vrt.Assert(os.WriteFile(indexFileName(base, 0), file0, 0o644) == nil, "setup")
	vrt.Assert(os.WriteFile(indexFileName(base, 1), nil, 0o644) == nil, "setup")
	vrt.Assert(writeHeader(headerName(base), newHeader(8, maxFileSize)) == nil, "setup")

	prim := &symPrimary{}
	idx, err := Open(context.Background(), base, prim, 8, maxFileSize, 0, 0, filecache.New(4))
	vrt.Assert(err == nil, "open-no-error")
	if err != nil {
		return
	}
	vrt.Assert(idx.fileNum == 1, "setup-current-file")

	// bucket table: each bucket names its newest non-deleted record of this file, a
	// position in a later file, or (only if it has no record here) nothing.
	newest := newestPerBucket(recs)
	busy := map[*iRec]bool{}
	for _, b := range kBuckets {
		rec := newest[b]
		elsewhere := localPosToBucketPos(4, 1, maxFileSize)
		if rec == nil {
			if vrt.Choose("bucket-elsewhere", 2) == 1 {
				idx.buckets[b] = elsewhere
			} else {
				idx.buckets[b] = 0
			}
			continue
		}
		if vrt.Choose("bucket-here", 2) == 1 {
			idx.buckets[b] = localPosToBucketPos(int64(rec.start)+sizePrefixSize, 0, maxFileSize)
			busy[rec] = true
		} else {
			idx.buckets[b] = elsewhere // superseded by a record in the current file
		}
	}

	checkBusy := func(where string) {
		for i, rec := range recs {
			if !busy[rec] {
				continue
			}
			rl, err := idx.readDiskBucket(types.Position(rec.start+sizePrefixSize), 0)
			vrt.Assert(err == nil, "busy-record-readable", "where", where, "rec", i)
			if err == nil {
				vrt.Assert(bytes.Equal([]byte(rl), rec.body[4:]), "busy-record-intact", "where", where, "rec", i)
			}
		}
		// a rescan of the file finds exactly the busy records
		fresh, _ := NewBuckets(8)
		err := scanIndexFile(context.Background(), base, 0, fresh, maxFileSize)
		vrt.Assert(err == nil, "rescan-no-error", "where", where)
		for _, b := range kBuckets {
			var want types.Position
			for _, rec := range recs {
				if busy[rec] && rec.bucket == b {
					want = localPosToBucketPos(int64(rec.start)+sizePrefixSize, 0, maxFileSize)
				}
			}
			vrt.Assert(fresh[b] == want, "rescan-yields-exactly-busy-records", "where", where, "bucket", uint32(b))
		}
	}

	sizeBefore := len(file0)
	var stale bool
	if vrt.Choose("whole-cycle", 2) == 1 {
		_, _, err = idx.gc(context.Background(), vrt.Choose("scanfree", 2) == 1)
		vrt.Assert(err == nil, "gc-no-error")
		_, serr := os.Stat(indexFileName(base, 0))
		stale = serr != nil
		if stale {
			vrt.Assert(len(busy) == 0, "file-removed-only-when-nothing-busy")
			vrt.Cover("kigc-file-removed")
			return
		}
	} else {
		stale, err = idx.reapIndexRecords(context.Background(), 0, indexFileName(base, 0))
		vrt.Assert(err == nil, "reap-no-error")
		if stale {
			vrt.Assert(len(busy) == 0, "stale-only-when-nothing-busy")
			vrt.Cover("kigc-stale")
		}
	}
	after1, err := os.ReadFile(indexFileName(base, 0))
	vrt.Assert(err == nil, "read-after")
	vrt.Assert(len(after1) <= sizeBefore, "file-never-grows")
	if len(busy) == 0 {
		vrt.Assert(len(after1) == 0, "unreferenced-file-emptied", "len", len(after1))
	}
	checkBusy("after-pass-1")
	// fixed point: a second pass changes nothing
	_, err = idx.reapIndexRecords(context.Background(), 0, indexFileName(base, 0))
	vrt.Assert(err == nil, "reap2-no-error")
	after2, err := os.ReadFile(indexFileName(base, 0))
	vrt.Assert(err == nil, "read-after2")
	vrt.Assert(bytes.Equal(after1, after2), "second-pass-is-a-fixed-point")
	checkBusy("after-pass-2")
	vrt.Cover("kigc-end")
}

// Verif_KSCAN: rescan of arbitrary index files (C02/C03 kernel): the bucket table is
// "newest complete non-deleted record per bucket", a torn tail is cut off so that a
// later append parses, and the bucket snapshot round-trips.
func Verif_KSCAN() {
	dir := vrt.TempDir()
	base := filepath.Join(dir, "i")
	R := vrt.Param("records", 3)
	r0 := vrt.Choose("r0", R+1)
	data0, recs0 := buildIndexFile(r0, 0, "f0")
	r1 := vrt.Choose("r1", R-r0+1)
	data1, recs1 := buildIndexFile(r1, 1, "f1")
	all := append(append([]*iRec{}, recs0...), recs1...)
	maxFileSize := uint32(1 << 30)

	// torn tail on the last file, cut at any byte of an extra record
	extra, _ := buildIndexFile(1, 1, "tail")
	cut := 0
	if vrt.Param("torn", 1) != 0 {
		cut = vrt.Choose("torn-cut", len(extra)) // 0 = no tail; 1..len-1 = torn
	}
	binary.LittleEndian.PutUint32(extra, binary.LittleEndian.Uint32(extra)&^deletedBit)
	file1 := append(append([]byte{}, data1...), extra[:cut]...)
	vrt.Assert(os.WriteFile(indexFileName(base, 0), data0, 0o644) == nil, "setup")
	vrt.Assert(os.WriteFile(indexFileName(base, 1), file1, 0o644) == nil, "setup")

	buckets, _ := NewBuckets(8)
	last, err := scanIndex(context.Background(), base, 0, buckets, maxFileSize)
	vrt.Assert(err == nil, "scan-no-error")
	vrt.Assert(last == 1, "scan-finds-last-file")
	newest := newestPerBucket(all)
	for _, b := range kBuckets {
		var want types.Position
		if rec := newest[b]; rec != nil {
			want = localPosToBucketPos(int64(rec.start)+sizePrefixSize, rec.file, maxFileSize)
		}
		vrt.Assert(buckets[b] == want, "scan-yields-newest-complete-live-record", "bucket", uint32(b))
	}
	// behavioural form of "the torn tail is cut off": a complete record appended after
	// the recovery scan (as the next flush would) is found by the next scan
	after, err := os.ReadFile(indexFileName(base, 1))
	vrt.Assert(err == nil, "read-after")
	if cut > 0 {
		vrt.Cover("kscan-torn")
	}
	nb := kBuckets[vrt.Choose("append-bucket", len(kBuckets))]
	app := make([]byte, 8, 8+14)
	binary.LittleEndian.PutUint32(app, 4+14)
	binary.LittleEndian.PutUint32(app[4:], uint32(nb))
	app = append(app, vrt.Bytes("append-list", 14)...)
	f, err := os.OpenFile(indexFileName(base, 1), os.O_WRONLY|os.O_APPEND, 0o644)
	vrt.Assert(err == nil, "append-open")
	_, err = f.Write(app)
	vrt.Assert(err == nil, "append-write")
	f.Close()
	fresh, _ := NewBuckets(8)
	_, err = scanIndex(context.Background(), base, 0, fresh, maxFileSize)
	vrt.Assert(err == nil, "rescan-no-error")
	vrt.Assert(fresh[nb] == localPosToBucketPos(int64(len(after))+sizePrefixSize, 1, maxFileSize), "record-appended-after-recovery-is-found", "cut", cut)
	for _, b := range kBuckets {
		if b != nb {
			vrt.Assert(fresh[b] == buckets[b], "rescan-after-append-keeps-other-buckets", "cut", cut)
		}
	}
	// put the file back for the snapshot part
	// snapshot round trip
	idx := &Index{basePath: base, buckets: buckets}
	vrt.Assert(idx.saveBucketState() == nil, "save-no-error")
	loaded, _ := NewBuckets(8)
	vrt.Assert(loadBucketState(context.Background(), base, loaded, maxFileSize) == nil, "load-no-error")
	for _, b := range kBuckets {
		vrt.Assert(loaded[b] == buckets[b], "snapshot-round-trip", "bucket", uint32(b))
	}
	_, serr := os.Stat(savedBucketsName(base))
	vrt.Assert(serr != nil, "snapshot-removed-on-load")
	vrt.Cover("kscan-end")
}
