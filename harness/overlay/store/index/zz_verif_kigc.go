package index

import (
	"bytes"
	"context"
	"encoding/binary"
	"os"
	"path/filepath"

	"github.com/ipld/go-storethehash/internal/vrt"
	"github.com/ipld/go-storethehash/store/filecache"
	"github.com/ipld/go-storethehash/store/types"
)

type iRec struct {
	bucket  BucketIndex
	start   int    // offset of the size prefix
	body    []byte // bucket prefix + record list bytes (what readDiskBucket returns)
	deleted bool
	file    uint32
}

var kBuckets = []BucketIndex{0x00, 0x5A, 0xFF}

// buildIndexFile returns the bytes of an index file of r records: bucket ids by structural
// choice among three, record-list sizes by structural choice, contents and deleted bits symbolic.
func buildIndexFile(r int, file uint32, label string) ([]byte, []*iRec) {
	var data []byte
	var recs []*iRec
	for i := 0; i < r; i++ {
		b := kBuckets[vrt.Choose(label+"-bucket", vrt.Param("nbuckets", len(kBuckets)))]
		n := []int{14, 0}[vrt.Choose(label+"-listlen", vrt.Param("listlens", 2))]
		body := make([]byte, 4, 4+n)
		binary.LittleEndian.PutUint32(body, uint32(b))
		if vrt.Param("symlists", 1) != 0 {
			body = append(body, vrt.Bytes(label+"-list", n)...)
		} else {
			// concrete record-list bytes: a scan that loses its place reads concrete garbage
			// (decided at once) instead of symbolic sizes and offsets
			for j := 0; j < n; j++ {
				body = append(body, byte(0x31+7*i+j))
			}
		}
		rec := &iRec{bucket: b, start: len(data), body: body, file: file}
		rec.deleted = vrt.Bool(label + "-deleted")
		sz := uint32(len(body))
		if rec.deleted {
			sz |= deletedBit
		}
		hdr := make([]byte, 4)
		binary.LittleEndian.PutUint32(hdr, sz)
		data = append(data, hdr...)
		data = append(data, body...)
		recs = append(recs, rec)
	}
	return data, recs
}

// newestPerBucket returns, per bucket, the last non-deleted record in log order.
func newestPerBucket(recs []*iRec) map[BucketIndex]*iRec {
	out := map[BucketIndex]*iRec{}
	for _, rec := range recs {
		if !rec.deleted {
			out[rec.bucket] = rec
		}
	}
	return out
}

// Verif_KIGC: one index GC pass over an arbitrary non-current index file (C04/C11 kernel).
func Verif_KIGC() {
	dir := vrt.TempDir()
	base := filepath.Join(dir, "i")
	R := vrt.Param("records", 3)
	r := 1 + vrt.Choose("r", R)
	data0, recs := buildIndexFile(r, 0, "f0")
	lastStart := recs[len(recs)-1].start
	limits := []uint32{1 << 30, uint32(lastStart) + 1, uint32(len(data0)), uint32(len(data0)) + 1}
	maxFileSize := limits[vrt.Choose("maxfilesize", vrt.Param("nlimits", len(limits)))]

	// optional torn tail: a size prefix announcing more bytes than are present
	torn := 0
	if vrt.Param("torn", 1) != 0 {
		torn = vrt.Choose("torn-tail", 3) // 0 none, 1 partial size prefix, 2 partial body
	}
	file0 := append([]byte{}, data0...)
	switch torn {
	case 1:
		file0 = append(file0, vrt.Bytes("torn-bytes", 2)...)
	case 2:
		hdr := make([]byte, 4)
		binary.LittleEndian.PutUint32(hdr, 18)
		file0 = append(append(file0, hdr...), vrt.Bytes("torn-bytes", 5)...)
	}
	vrt.Assert(os.WriteFile(indexFileName(base, 0), file0, 0o644) == nil, "setup")
	vrt.Assert(os.WriteFile(indexFileName(base, 1), nil, 0o644) == nil, "setup")
	vrt.Assert(writeHeader(headerName(base), newHeader(8, maxFileSize)) == nil, "setup")

	prim := &symPrimary{}
	idx, err := Open(context.Background(), base, prim, 8, maxFileSize, 0, 0, filecache.New(4))
	vrt.Assert(err == nil, "open-no-error")
	if err != nil {
		return
	}
	vrt.Assert(idx.fileNum == 1, "setup-current-file")

	// bucket table: each bucket names its newest non-deleted record of this file, a
	// position in a later file, or (only if it has no record here) nothing.
	newest := newestPerBucket(recs)
	busy := map[*iRec]bool{}
	for _, b := range kBuckets {
		rec := newest[b]
		elsewhere := localPosToBucketPos(4, 1, maxFileSize)
		if rec == nil {
			if vrt.Choose("bucket-elsewhere", 2) == 1 {
				idx.buckets[b] = elsewhere
			} else {
				idx.buckets[b] = 0
			}
			continue
		}
		if vrt.Choose("bucket-here", 2) == 1 {
			idx.buckets[b] = localPosToBucketPos(int64(rec.start)+sizePrefixSize, 0, maxFileSize)
			busy[rec] = true
		} else {
			idx.buckets[b] = elsewhere // superseded by a record in the current file
		}
	}

	checkBusy := func(where string) {
		for i, rec := range recs {
			if !busy[rec] {
				continue
			}
			rl, err := idx.readDiskBucket(types.Position(rec.start+sizePrefixSize), 0)
			vrt.Assert(err == nil, "busy-record-readable", "where", where, "rec", i)
			if err == nil {
				vrt.Assert(bytes.Equal([]byte(rl), rec.body[4:]), "busy-record-intact", "where", where, "rec", i)
			}
		}
		// a rescan of the file finds exactly the busy records
		fresh, _ := NewBuckets(8)
		err := scanIndexFile(context.Background(), base, 0, fresh, maxFileSize)
		vrt.Assert(err == nil, "rescan-no-error", "where", where)
		for _, b := range kBuckets {
			var want types.Position
			for _, rec := range recs {
				if busy[rec] && rec.bucket == b {
					want = localPosToBucketPos(int64(rec.start)+sizePrefixSize, 0, maxFileSize)
				}
			}
			vrt.Assert(fresh[b] == want, "rescan-yields-exactly-busy-records", "where", where, "bucket", uint32(b))
		}
	}

	sizeBefore := len(file0)
	var stale bool
	if vrt.Choose("whole-cycle", 2) == 1 {
		_, _, err = idx.gc(context.Background(), vrt.Choose("scanfree", 2) == 1)
		vrt.Assert(err == nil, "gc-no-error")
		_, serr := os.Stat(indexFileName(base, 0))
		stale = serr != nil
		if stale {
			vrt.Assert(len(busy) == 0, "file-removed-only-when-nothing-busy")
			vrt.Cover("kigc-file-removed")
			return
		}
	} else {
		stale, err = idx.reapIndexRecords(context.Background(), 0, indexFileName(base, 0))
		vrt.Assert(err == nil, "reap-no-error")
		if stale {
			vrt.Assert(len(busy) == 0, "stale-only-when-nothing-busy")
			vrt.Cover("kigc-stale")
		}
	}
	after1, err := os.ReadFile(indexFileName(base, 0))
	vrt.Assert(err == nil, "read-after")
	vrt.Assert(len(after1) <= sizeBefore, "file-never-grows")
	if len(busy) == 0 {
		vrt.Assert(len(after1) == 0, "unreferenced-file-emptied", "len", len(after1))
	}
	checkBusy("after-pass-1")
	// fixed point: a second pass changes nothing
	_, err = idx.reapIndexRecords(context.Background(), 0, indexFileName(base, 0))
	vrt.Assert(err == nil, "reap2-no-error")
	after2, err := os.ReadFile(indexFileName(base, 0))
	vrt.Assert(err == nil, "read-after2")
	vrt.Assert(bytes.Equal(after1, after2), "second-pass-is-a-fixed-point")
	checkBusy("after-pass-2")
	vrt.Cover("kigc-end")
}

// Verif_KSCAN: rescan of arbitrary index files (C02/C03 kernel): the bucket table is
// "newest complete non-deleted record per bucket", a torn tail is cut off so that a
// later append parses, and the bucket snapshot round-trips.
func Verif_KSCAN() {
	dir := vrt.TempDir()
	base := filepath.Join(dir, "i")
	R := vrt.Param("records", 3)
	r0 := vrt.Choose("r0", R+1)
	data0, recs0 := buildIndexFile(r0, 0, "f0")
	r1 := vrt.Choose("r1", R-r0+1)
	data1, recs1 := buildIndexFile(r1, 1, "f1")
	all := append(append([]*iRec{}, recs0...), recs1...)
	maxFileSize := uint32(1 << 30)

	// torn tail on the last file, cut at any byte of an extra record
	extra, _ := buildIndexFile(1, 1, "tail")
	cut := 0
	if vrt.Param("torn", 1) != 0 {
		cut = vrt.Choose("torn-cut", len(extra)) // 0 = no tail; 1..len-1 = torn
	}
	binary.LittleEndian.PutUint32(extra, binary.LittleEndian.Uint32(extra)&^deletedBit)
	file1 := append(append([]byte{}, data1...), extra[:cut]...)
	vrt.Assert(os.WriteFile(indexFileName(base, 0), data0, 0o644) == nil, "setup")
	vrt.Assert(os.WriteFile(indexFileName(base, 1), file1, 0o644) == nil, "setup")

	buckets, _ := NewBuckets(8)
	last, err := scanIndex(context.Background(), base, 0, buckets, maxFileSize)
	vrt.Assert(err == nil, "scan-no-error")
	vrt.Assert(last == 1, "scan-finds-last-file")
	newest := newestPerBucket(all)
	for _, b := range kBuckets {
		var want types.Position
		if rec := newest[b]; rec != nil {
			want = localPosToBucketPos(int64(rec.start)+sizePrefixSize, rec.file, maxFileSize)
		}
		vrt.Assert(buckets[b] == want, "scan-yields-newest-complete-live-record", "bucket", uint32(b))
	}
	// behavioural form of "the torn tail is cut off": a complete record appended after
	// the recovery scan (as the next flush would) is found by the next scan
	after, err := os.ReadFile(indexFileName(base, 1))
	vrt.Assert(err == nil, "read-after")
	if cut > 0 {
		vrt.Cover("kscan-torn")
	}
	nb := kBuckets[vrt.Choose("append-bucket", len(kBuckets))]
	app := make([]byte, 8, 8+14)
	binary.LittleEndian.PutUint32(app, 4+14)
	binary.LittleEndian.PutUint32(app[4:], uint32(nb))
	app = append(app, vrt.Bytes("append-list", 14)...)
	f, err := os.OpenFile(indexFileName(base, 1), os.O_WRONLY|os.O_APPEND, 0o644)
	vrt.Assert(err == nil, "append-open")
	_, err = f.Write(app)
	vrt.Assert(err == nil, "append-write")
	f.Close()
	fresh, _ := NewBuckets(8)
	_, err = scanIndex(context.Background(), base, 0, fresh, maxFileSize)
	vrt.Assert(err == nil, "rescan-no-error")
	vrt.Assert(fresh[nb] == localPosToBucketPos(int64(len(after))+sizePrefixSize, 1, maxFileSize), "record-appended-after-recovery-is-found", "cut", cut)
	for _, b := range kBuckets {
		if b != nb {
			vrt.Assert(fresh[b] == buckets[b], "rescan-after-append-keeps-other-buckets", "cut", cut)
		}
	}
	// put the file back for the snapshot part
	// snapshot round trip
	idx := &Index{basePath: base, buckets: buckets}
	vrt.Assert(idx.saveBucketState() == nil, "save-no-error")
	loaded, _ := NewBuckets(8)
	vrt.Assert(loadBucketState(context.Background(), base, loaded, maxFileSize) == nil, "load-no-error")
	for _, b := range kBuckets {
		vrt.Assert(loaded[b] == buckets[b], "snapshot-round-trip", "bucket", uint32(b))
	}
	_, serr := os.Stat(savedBucketsName(base))
	vrt.Assert(serr != nil, "snapshot-removed-on-load")
	vrt.Cover("kscan-end")
}

// kexpCtx is a context whose deadline expires after a chosen number of Err() checks.
type kexpCtx struct {
	context.Context
	left int
}

func (c *kexpCtx) Err() error {
	if c.left == 0 {
		return context.DeadlineExceeded
	}
	c.left--
	return nil
}

// mkRec builds one non-deleted record (size prefix + bucket prefix + symbolic list) for bucket b.
func mkRec(b BucketIndex, label string) []byte {
	rec := make([]byte, 8, 8+14)
	binary.LittleEndian.PutUint32(rec, 4+14)
	binary.LittleEndian.PutUint32(rec[4:], uint32(b))
	return append(rec, vrt.Bytes(label, 14)...)
}

// Verif_KIGC2: index GC over several non-current files, with a cycle stopped by its time
// limit at any of its checks, a supersession between the cycles, and the resumed cycle
// (C04/C11 kernel). After every cycle the busy records are intact, the sequence of index
// files named by the header has no hole, and a rescan from the header (restart without a
// bucket snapshot) reconstructs exactly the live bucket table.
func Verif_KIGC2() {
	dir := vrt.TempDir()
	base := filepath.Join(dir, "i")
	F := vrt.Param("files", 3)
	R := vrt.Param("records", 1)
	nb := vrt.Param("nbuckets", 2)
	maxFileSize := uint32(1 << 20)
	symDeleted := vrt.Param("symdeleted", 0) != 0

	var all []*iRec
	for f := 0; f < F; f++ {
		r := 1 + vrt.Choose("r", R)
		var data []byte
		for i := 0; i < r; i++ {
			b := kBuckets[vrt.Choose("bucket", nb)]
			raw := mkRec(b, "list")
			rec := &iRec{bucket: b, start: len(data), body: raw[4:], file: uint32(f)}
			if symDeleted {
				rec.deleted = vrt.Bool("deleted")
			}
			if rec.deleted {
				binary.LittleEndian.PutUint32(raw, (4+14)|deletedBit)
			}
			data = append(data, raw...)
			all = append(all, rec)
		}
		vrt.Assert(os.WriteFile(indexFileName(base, uint32(f)), data, 0o644) == nil, "setup")
	}
	// bucket table: each bucket names its newest non-deleted record of the old files, or a
	// newer record in the current file; a bucket without records may be empty.
	newest := newestPerBucket(all)
	var cur []byte
	want := map[BucketIndex]types.Position{}
	busy := map[BucketIndex]*iRec{}
	for _, b := range kBuckets[:nb] {
		rec := newest[b]
		if vrt.Choose("bucket-in-current-file", 2) == 1 {
			want[b] = localPosToBucketPos(int64(len(cur))+sizePrefixSize, uint32(F), maxFileSize)
			cur = append(cur, mkRec(b, "cur-list")...)
			continue
		}
		if rec != nil {
			want[b] = localPosToBucketPos(int64(rec.start)+sizePrefixSize, rec.file, maxFileSize)
			busy[b] = rec
		}
	}
	vrt.Assert(os.WriteFile(indexFileName(base, uint32(F)), cur, 0o644) == nil, "setup")
	vrt.Assert(writeHeader(headerName(base), newHeader(8, maxFileSize)) == nil, "setup")

	prim := &symPrimary{}
	idx, err := Open(context.Background(), base, prim, 8, maxFileSize, 0, 0, filecache.New(4))
	vrt.Assert(err == nil, "open-no-error")
	if err != nil {
		return
	}
	vrt.Assert(idx.fileNum == uint32(F), "setup-current-file")
	for _, b := range kBuckets[:nb] {
		// the recovery scan of Open must already have produced this table
		vrt.Assert(idx.buckets[b] == want[b], "open-scan-yields-newest-live-record", "bucket", uint32(b))
		idx.buckets[b] = want[b]
	}

	check := func(where string) {
		header, err := readHeader(headerName(base))
		vrt.Assert(err == nil, "header-readable", "where", where)
		if err != nil {
			return
		}
		vrt.Assert(header.FirstFile <= uint32(F), "first-file-not-past-current", "where", where)
		for f := header.FirstFile; f <= uint32(F); f++ {
			_, serr := os.Stat(indexFileName(base, f))
			vrt.Assert(serr == nil, "no-hole-in-index-file-sequence", "where", where, "file", int(f), "first", int(header.FirstFile))
		}
		for _, b := range kBuckets[:nb] {
			rec := busy[b]
			if rec == nil {
				continue
			}
			rl, err := idx.readDiskBucket(types.Position(rec.start+sizePrefixSize), rec.file)
			vrt.Assert(err == nil, "busy-record-readable", "where", where, "file", int(rec.file))
			if err == nil {
				vrt.Assert(bytes.Equal([]byte(rl), rec.body[4:]), "busy-record-intact", "where", where, "file", int(rec.file))
			}
		}
		fresh, _ := NewBuckets(8)
		last, err := scanIndex(context.Background(), base, header.FirstFile, fresh, maxFileSize)
		vrt.Assert(err == nil, "rescan-no-error", "where", where)
		if err != nil {
			return
		}
		vrt.Assert(last == uint32(F), "rescan-finds-current-file", "where", where, "last", int(last))
		for _, b := range kBuckets[:nb] {
			vrt.Assert(fresh[b] == idx.buckets[b], "rescan-from-header-reconstructs-bucket-table", "where", where, "bucket", uint32(b))
		}
	}

	// cycle 1: may be stopped by its time limit at any check
	K := vrt.Param("ctxchecks", 8)
	var ctx context.Context = context.Background()
	if n := vrt.Choose("expire-after", K+1); n < K {
		ctx = &kexpCtx{Context: context.Background(), left: n}
	}
	_, _, err = idx.gc(ctx, vrt.Choose("scanfree", 2) == 1)
	vrt.Assert(err == nil || err == context.DeadlineExceeded, "gc-no-error", "where", "cycle-1")
	if err != nil {
		vrt.Cover("kigc2-cycle-stopped")
		if idx.gcResume && idx.gcResumeAt > 0 {
			vrt.Cover("kigc2-resume-past-first-file")
		}
	}
	check("after-cycle-1")

	// between the cycles a flush may supersede one busy record (new record in the current file)
	if s := vrt.Choose("supersede", nb+1); s > 0 {
		b := kBuckets[s-1]
		if busy[b] != nil {
			fi, err := os.Stat(indexFileName(base, uint32(F)))
			vrt.Assert(err == nil, "stat-current")
			f, err := os.OpenFile(indexFileName(base, uint32(F)), os.O_WRONLY|os.O_APPEND, 0o644)
			vrt.Assert(err == nil, "append-open")
			_, err = f.Write(mkRec(b, "new-list"))
			vrt.Assert(err == nil, "append-write")
			f.Close()
			idx.buckets[b] = localPosToBucketPos(fi.Size()+sizePrefixSize, uint32(F), maxFileSize)
			delete(busy, b)
			vrt.Cover("kigc2-superseded-between-cycles")
		}
	}

	// cycle 2 runs to completion (resuming where cycle 1 stopped)
	_, _, err = idx.gc(context.Background(), vrt.Choose("scanfree", 2) == 1)
	check("after-cycle-2")
	if err != nil {
		// Observed on the pinned tree (not a violation of C04/C11 as stated): when the
		// scan-free pass of the resumed cycle unlinks the file the cycle was to resume at,
		// the cycle ends with "cannot stat index file" and the resume cursor is dropped.
		// Contents are untouched (checked above) and the next cycle must complete.
		vrt.Cover("kigc2-resumed-cycle-failed")
		vrt.Assert(!idx.gcResume, "failed-cycle-drops-resume-cursor")
		_, _, err = idx.gc(context.Background(), vrt.Choose("scanfree", 2) == 1)
		vrt.Assert(err == nil, "gc-no-error", "where", "cycle-3")
		check("after-cycle-3")
	}
	// every old file that holds no busy record is empty or gone after the complete cycle
	header, err := readHeader(headerName(base))
	if err == nil {
		for f := uint32(0); f < uint32(F); f++ {
			used := false
			for _, rec := range busy {
				if rec.file == f {
					used = true
				}
			}
			if used {
				continue
			}
			fi, serr := os.Stat(indexFileName(base, f))
			vrt.Assert(serr != nil || fi.Size() == 0, "unreferenced-file-emptied-or-removed", "file", int(f), "first", int(header.FirstFile))
		}
	}
	vrt.Cover("kigc2-end")
}
