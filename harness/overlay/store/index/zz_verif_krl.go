package index

import (
	"bytes"
	"context"
	"errors"
	"path/filepath"

	"github.com/ipld/go-storethehash/internal/vrt"
	"github.com/ipld/go-storethehash/store/filecache"
	"github.com/ipld/go-storethehash/store/primary"
	"github.com/ipld/go-storethehash/store/types"
)

// symPrimary is a harness-side primary: location -> full index key.
type symPrimary struct {
	locs []types.Block
	keys [][]byte
}

func (p *symPrimary) find(blk types.Block) int {
	for i := range p.locs {
		if p.locs[i] == blk {
			return i
		}
	}
	return -1
}
func (p *symPrimary) Get(blk types.Block) ([]byte, []byte, error) {
	i := p.find(blk)
	if i < 0 {
		return nil, nil, errors.New("symPrimary: no such block")
	}
	return p.keys[i], nil, nil
}
func (p *symPrimary) Put(key []byte, value []byte) (types.Block, error) {
	return types.Block{}, errors.New("symPrimary: Put not supported")
}
func (p *symPrimary) IndexKey(key []byte) ([]byte, error) { return key, nil }
func (p *symPrimary) GetIndexKey(blk types.Block) ([]byte, error) {
	k, _, err := p.Get(blk)
	return k, err
}
func (p *symPrimary) Flush() (types.Work, error)               { return 0, nil }
func (p *symPrimary) Sync() error                              { return nil }
func (p *symPrimary) Close() error                             { return nil }
func (p *symPrimary) OutstandingWork() types.Work              { return 0 }
func (p *symPrimary) Iter() (primary.PrimaryStorageIter, error) { return nil, nil }
func (p *symPrimary) StorageSize() (int64, error)              { return 0, nil }

var _ primary.PrimaryStorage = &symPrimary{}

type rlEntry struct {
	key  []byte // full key (with bucket prefix)
	plen int    // stored prefix length (of the stripped key)
	loc  types.Block
}

// assertInvariantI checks sortedness, prefix-freeness, own-prefix and distinct locations
// of the record list currently stored for the bucket, against the model entries.
func assertInvariantI(idx *Index, bucket BucketIndex, ents []rlEntry, strip int, where string) {
	rl, err := idx.getRecordsFromBucket(bucket)
	vrt.Assert(err == nil, "read-record-list", "where", where)
	if err != nil {
		return
	}
	var recs []Record
	if rl != nil {
		it := rl.Iter()
		for !it.Done() {
			recs = append(recs, it.Next())
			if len(recs) > len(ents)+2 {
				vrt.Fail("record-list-longer-than-model", "where", where)
				return
			}
		}
	}
	vrt.Assert(len(recs) == len(ents), "record-count-matches-model", "where", where, "have", len(recs), "want", len(ents))
	for i := range recs {
		if i > 0 {
			vrt.Assert(bytes.Compare(recs[i-1].Key, recs[i].Key) < 0, "stored-prefixes-strictly-sorted", "where", where)
		}
		for j := 0; j < i; j++ {
			vrt.Assert(!bytes.HasPrefix(recs[i].Key, recs[j].Key), "stored-prefixes-prefix-free", "where", where)
			vrt.Assert(!bytes.HasPrefix(recs[j].Key, recs[i].Key), "stored-prefixes-prefix-free", "where", where)
			vrt.Assert(recs[i].Block != recs[j].Block, "locations-distinct", "where", where)
		}
		// the record must be the entry of exactly one model key: same location and
		// its stored prefix is a prefix of that key
		owner := -1
		for k := range ents {
			if ents[k].loc == recs[i].Block {
				owner = k
			}
		}
		vrt.Assert(owner >= 0, "record-location-known", "where", where)
		if owner >= 0 {
			vrt.Assert(len(recs[i].Key) >= 1, "stored-prefix-nonempty", "where", where)
			vrt.Assert(bytes.HasPrefix(ents[owner].key[strip:], recs[i].Key), "stored-prefix-is-prefix-of-own-key", "where", where)
		}
	}
}

func assertLookups(idx *Index, ents []rlEntry, where string) {
	for i := range ents {
		loc, found, err := idx.Get(ents[i].key)
		vrt.Assert(err == nil, "get-no-error", "where", where)
		vrt.Assert(found, "present-key-found", "where", where)
		if found {
			vrt.Assert(loc == ents[i].loc, "present-key-own-location", "where", where)
		}
	}
}

// Verif_KRL: C08 inductive step — from an arbitrary record list satisfying invariant I,
// one index operation preserves I and updates the abstract map exactly.
func Verif_KRL() {
	N := vrt.Param("entries", 3)
	L := vrt.Param("keylen", 3) // stripped key length
	bits := uint8(8)
	switch vrt.Choose("bits", vrt.Param("bitchoices", 1)) {
	case 1:
		bits = 16
	case 2:
		bits = 24
	case 3:
		bits = 12
	}
	strip := int(bits / 8)
	n := vrt.Choose("n", N+1)
	bpfx := vrt.Bytes("bucketprefix", 4)
	bucket := BucketIndex(uint32(bpfx[0])|uint32(bpfx[1])<<8|uint32(bpfx[2])<<16|uint32(bpfx[3])<<24) & (BucketIndex(1)<<bits - 1)
	// concrete bucket (any value would do: the bucket only selects a table slot)
	vrt.Assume(bucket == BucketIndex(0x5A5A5A)&(BucketIndex(1)<<bits-1))

	// common > 0: every key carries the same `common` bytes right after the bucket bytes
	// (keys that share many leading bytes: identity multihashes, inlined data), so stored
	// prefixes are longer than `common` bytes
	common := vrt.Param("common", 0)
	mkKey := func(label string) []byte {
		k := vrt.Bytes(label, strip+L)
		if common > 0 {
			long := append([]byte{}, k[:strip]...)
			for c := 0; c < common; c++ {
				long = append(long, 0xAB)
			}
			k = append(long, k[strip:]...)
		}
		// the key must fall into the bucket
		p := BucketIndex(uint32(k[0])|uint32(k[1])<<8|uint32(k[2])<<16|uint32(k[3])<<24) & (BucketIndex(1)<<bits - 1)
		vrt.Assume(p == bucket)
		return k
	}

	prim := &symPrimary{}
	var ents []rlEntry
	var data []byte
	for i := 0; i < n; i++ {
		k := mkKey("key")
		l := common + 1 + vrt.Choose("plen", L)
		loc := types.Block{Offset: types.Position(vrt.U64("off")), Size: types.Size(vrt.U32("size"))}
		for j := 0; j < i; j++ {
			vrt.Assume(loc != ents[j].loc)                                               // I4
			vrt.Assume(!bytes.HasPrefix(k[strip:strip+l], ents[j].key[strip:strip+ents[j].plen])) // I3
			vrt.Assume(!bytes.HasPrefix(ents[j].key[strip:strip+ents[j].plen], k[strip:strip+l])) // I3
		}
		if i > 0 {
			vrt.Assume(bytes.Compare(ents[i-1].key[strip:strip+ents[i-1].plen], k[strip:strip+l]) < 0) // I2
		}
		ents = append(ents, rlEntry{key: k, plen: l, loc: loc})
		prim.locs = append(prim.locs, loc)
		prim.keys = append(prim.keys, k)
		data = AddKeyPosition(data, KeyPositionPair{Key: k[strip : strip+l], Block: loc})
	}

	dir := vrt.TempDir()
	idx, err := Open(context.Background(), filepath.Join(dir, "i"), prim, bits, 1<<30, 0, 0, filecache.New(4))
	vrt.Assert(err == nil, "open-no-error")
	if err != nil {
		return
	}
	if n > 0 {
		idx.nextPool[bucket] = data
		switch vrt.Choose("where", 3) {
		case 0: // unflushed pool
		case 1: // just-flushed pool
			_, err = idx.Flush()
			vrt.Assert(err == nil, "flush-no-error")
		case 2: // on disk only
			_, err = idx.Flush()
			vrt.Assert(err == nil, "flush-no-error")
			idx.curPool = nil
		}
	}
	assertInvariantI(idx, bucket, ents, strip, "pre")
	assertLookups(idx, ents, "pre")
	vrt.Cover("krl-pre-state-valid")

	var removed []byte
	absentStaysAbsent := func(where string) {
		if removed == nil {
			return
		}
		loc, found, err := idx.Get(removed)
		vrt.Assert(err == nil, "get-removed-no-error", "where", where)
		if found {
			// the index may answer with another key's location (prefix match), never with
			// the removed key's own
			hit := false
			for j := range ents {
				if ents[j].loc == loc {
					hit = true
				}
			}
			vrt.Assert(hit, "removed-key-nothing-or-other-keys-location", "where", where)
		}
	}
	switch vrt.Choose("op", 6) {
	case 0: // Put of a new key
		k := mkKey("newkey")
		for j := range ents {
			vrt.Assume(!bytes.Equal(k, ents[j].key))
		}
		loc := types.Block{Offset: types.Position(vrt.U64("off")), Size: types.Size(vrt.U32("size"))}
		for j := range ents {
			vrt.Assume(loc != ents[j].loc)
		}
		prim.locs = append(prim.locs, loc)
		prim.keys = append(prim.keys, k)
		vrt.Assert(idx.Put(k, loc) == nil, "put-no-error")
		ents = append(ents, rlEntry{key: k, loc: loc})
		vrt.Cover("krl-put-new")
	case 1: // Put of a key that is already present: must change nothing
		if n == 0 {
			vrt.Assume(false)
		}
		i := vrt.Choose("target", n)
		loc := types.Block{Offset: types.Position(vrt.U64("off")), Size: types.Size(vrt.U32("size"))}
		err := idx.Put(ents[i].key, loc)
		vrt.Assert(err == nil, "put-existing-no-error")
		// Index.Put of a present key either leaves the entry alone (when the stored
		// prefix is contained in the key, the full-key comparison finds it equal).
		vrt.Cover("krl-put-existing")
	case 2: // Update
		if n == 0 {
			vrt.Assume(false)
		}
		i := vrt.Choose("target", n)
		loc := types.Block{Offset: types.Position(vrt.U64("off")), Size: types.Size(vrt.U32("size"))}
		for j := range ents {
			vrt.Assume(loc != ents[j].loc)
		}
		vrt.Assert(idx.Update(ents[i].key, loc) == nil, "update-no-error")
		ents[i].loc = loc
		prim.locs[i] = loc
		vrt.Cover("krl-update")
	case 3: // Remove
		if n == 0 {
			vrt.Assume(false)
		}
		i := vrt.Choose("target", n)
		ok, err := idx.Remove(ents[i].key)
		vrt.Assert(err == nil, "remove-no-error")
		vrt.Assert(ok, "remove-present-key-reports-true")
		removed = ents[i].key
		ents = append(append([]rlEntry{}, ents[:i]...), ents[i+1:]...)
		vrt.Cover("krl-remove")
	case 4: // Get of an absent key
		q := mkKey("absent")
		for j := range ents {
			vrt.Assume(!bytes.Equal(q, ents[j].key))
		}
		loc, found, err := idx.Get(q)
		vrt.Assert(err == nil, "get-absent-no-error")
		if found {
			hit := false
			for j := range ents {
				if ents[j].loc == loc {
					hit = true
				}
			}
			vrt.Assert(hit, "absent-key-nothing-or-other-keys-location")
		}
		// Remove/Update of an absent key must not touch anything either
		vrt.Cover("krl-get-absent")
	case 5: // flush in between (storage move only)
		_, err := idx.Flush()
		vrt.Assert(err == nil, "flush-no-error")
		vrt.Cover("krl-flush")
	}
	assertInvariantI(idx, bucket, ents, strip, "post")
	assertLookups(idx, ents, "post")
	absentStaysAbsent("post")
	// and the same after the list has moved to disk
	_, err = idx.Flush()
	vrt.Assert(err == nil, "flush-no-error")
	idx.curPool = nil
	assertLookups(idx, ents, "post-disk")
	absentStaysAbsent("post-disk")
	vrt.Cover("krl-end")
}
