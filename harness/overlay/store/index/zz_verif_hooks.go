package index

import (
	"context"

	"github.com/ipld/go-storethehash/store/types"
)

// In-package accessors used by harnesses of other packages (overlay only; /repo is not modified).

// VerifGC runs one index GC cycle synchronously.
func (index *Index) VerifGC(ctx context.Context, scanFree bool) (int64, int, error) {
	return index.gc(ctx, scanFree)
}

// VerifBuckets returns the live bucket table.
func (index *Index) VerifBuckets() Buckets { return index.buckets }

func (index *Index) VerifFileNum() uint32    { return index.fileNum }
func (index *Index) VerifMaxFileSize() uint32 { return index.maxFileSize }
func (index *Index) VerifSizeBits() uint8    { return index.sizeBits }
func (index *Index) VerifBasePath() string   { return index.basePath }
func (index *Index) VerifPoolLens() (int, int) { return len(index.nextPool), len(index.curPool) }

func VerifLocalize(pos types.Position, maxFileSize uint32) (types.Position, uint32) {
	return localizeBucketPos(pos, maxFileSize)
}

func VerifIndexFileName(basePath string, fileNum uint32) string { return indexFileName(basePath, fileNum) }

func VerifReadHeader(path string) (Header, error) { return readHeader(headerName(path)) }
