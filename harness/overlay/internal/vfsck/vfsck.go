// Package vfsck is an independent reader of the on-disk formats of go-storethehash
// (C07). It shares no code with the repository: it parses the .info headers, index
// files, primary files, freelist and .gc files itself and asserts that they agree with
// each other and with the live bucket table handed in by the harness.
package vfsck

import (
	"bytes"
	"encoding/binary"
	"encoding/json"
	"os"
	"strconv"

	"github.com/ipld/go-storethehash/internal/vrt"
)

const delBit = uint32(1) << 31

// field order and types mirror the headers' JSON objects
type indexHeader struct {
	Version         int
	BucketsBits     byte
	MaxFileSize     uint32
	FirstFile       uint32
	PrimaryFileSize uint32
}

type primaryHeader struct {
	Version     int
	MaxFileSize uint32
	FirstFile   uint32
}

type Loc struct {
	Offset uint64
	Size   uint32
}

type Input struct {
	IndexBase   string   // e.g. <dir>/i
	PrimaryBase string   // e.g. <dir>/d
	Buckets     []uint64 // live bucket table (same length as 2^bits)
	Pending     []Loc    // unflushed freelist entries (pool), if any
	Where       string
}

func readFile(name string) ([]byte, bool) {
	b, err := os.ReadFile(name)
	if err != nil {
		return nil, false
	}
	return b, true
}

func uvarint(b []byte) (uint64, int) {
	var x uint64
	for i := 0; i < len(b) && i < 9; i++ {
		x |= uint64(b[i]&0x7f) << (7 * uint(i))
		if b[i] < 0x80 {
			return x, i + 1
		}
	}
	return 0, 0
}

func readFreelist(name string) []Loc {
	b, ok := readFile(name)
	if !ok {
		return nil
	}
	var out []Loc
	for p := 0; p+12 <= len(b); p += 12 {
		out = append(out, Loc{binary.LittleEndian.Uint64(b[p:]), binary.LittleEndian.Uint32(b[p+8:])})
	}
	return out
}

// Check asserts the C07 invariant for the store files.
func Check(in Input) {
	w := in.Where
	hb, ok := readFile(in.IndexBase + ".info")
	vrt.Assert(ok, "fsck-index-header-exists", "where", w)
	if !ok {
		return
	}
	var ih indexHeader
	vrt.Assert(json.Unmarshal(hb, &ih) == nil, "fsck-index-header-parses", "where", w)
	pb, ok := readFile(in.PrimaryBase + ".info")
	vrt.Assert(ok, "fsck-primary-header-exists", "where", w)
	if !ok {
		return
	}
	var ph primaryHeader
	vrt.Assert(json.Unmarshal(pb, &ph) == nil, "fsck-primary-header-parses", "where", w)
	vrt.Assert(len(in.Buckets) == 1<<ih.BucketsBits, "fsck-bucket-table-size", "where", w)
	ifs, pfs := uint64(ih.MaxFileSize), uint64(ph.MaxFileSize)
	vrt.Assert(ifs >= 1 && pfs >= 1, "fsck-file-size-limits-positive", "where", w)
	if ifs == 0 || pfs == 0 {
		return
	}
	strip := int(ih.BucketsBits / 8)
	mask := uint32(1)<<ih.BucketsBits - 1

	freed := append([]Loc{}, in.Pending...)
	freed = append(freed, readFreelist(in.IndexBase+".free")...)
	freed = append(freed, readFreelist(in.IndexBase+".free.gc")...)

	var allLocs []Loc
	for b, pos := range in.Buckets {
		if pos == 0 {
			continue
		}
		// absolute position = file number * limit + local offset; the file is chosen by
		// where the record (its 4-byte size prefix) starts
		vrt.Assert(pos >= 4, "fsck-bucket-position-valid", "where", w, "bucket", b)
		fileNum := (pos - 4) / ifs
		local := pos - fileNum*ifs
		vrt.Assert(fileNum >= uint64(ih.FirstFile), "fsck-index-first-file-not-beyond-referenced-file", "where", w, "bucket", b)
		data, ok := readFile(in.IndexBase + "." + strconv.FormatUint(fileNum, 10))
		vrt.Assert(ok, "fsck-bucket-points-into-existing-index-file", "where", w, "bucket", b)
		if !ok {
			continue
		}
		vrt.Assert(local+4 <= uint64(len(data)), "fsck-record-list-complete", "where", w, "bucket", b)
		if local+4 > uint64(len(data)) {
			continue
		}
		size := binary.LittleEndian.Uint32(data[local-4:])
		vrt.Assert(size&delBit == 0, "fsck-record-list-not-deleted", "where", w, "bucket", b)
		if size&delBit != 0 {
			continue
		}
		vrt.Assert(size >= 4 && local+uint64(size) <= uint64(len(data)), "fsck-record-list-complete", "where", w, "bucket", b)
		if size < 4 || local+uint64(size) > uint64(len(data)) {
			continue
		}
		tag := binary.LittleEndian.Uint32(data[local:])
		vrt.Assert(tag == uint32(b), "fsck-record-list-tagged-with-its-bucket", "where", w, "bucket", b)
		list := data[local+4 : local+uint64(size)]
		var prev []byte
		var prefixes [][]byte
		for p := 0; p < len(list); {
			vrt.Assert(p+13 <= len(list), "fsck-entry-complete", "where", w, "bucket", b)
			if p+13 > len(list) {
				break
			}
			loc := Loc{binary.LittleEndian.Uint64(list[p:]), binary.LittleEndian.Uint32(list[p+8:])}
			kl := int(list[p+12])
			vrt.Assert(kl >= 1 && p+13+kl <= len(list), "fsck-entry-complete", "where", w, "bucket", b)
			if kl < 1 || p+13+kl > len(list) {
				break
			}
			prefix := list[p+13 : p+13+kl]
			p += 13 + kl
			if prev != nil {
				vrt.Assert(bytes.Compare(prev, prefix) < 0, "fsck-entries-sorted", "where", w, "bucket", b)
			}
			for _, o := range prefixes {
				vrt.Assert(!bytes.HasPrefix(prefix, o), "fsck-entries-prefix-free", "where", w, "bucket", b)
				vrt.Assert(!bytes.HasPrefix(o, prefix), "fsck-entries-prefix-free", "where", w, "bucket", b)
			}
			prev = prefix
			prefixes = append(prefixes, prefix)
			for _, o := range allLocs {
				vrt.Assert(o.Offset != loc.Offset, "fsck-locations-distinct", "where", w, "bucket", b)
			}
			allLocs = append(allLocs, loc)
			for _, f := range freed {
				vrt.Assert(f.Offset != loc.Offset, "fsck-live-location-not-on-freelist", "where", w, "bucket", b)
			}
			// the primary record
			pfile := loc.Offset / pfs
			plocal := loc.Offset - pfile*pfs
			vrt.Assert(pfile >= uint64(ph.FirstFile), "fsck-primary-first-file-not-beyond-referenced-file", "where", w, "bucket", b)
			pdata, ok := readFile(in.PrimaryBase + "." + strconv.FormatUint(pfile, 10))
			vrt.Assert(ok, "fsck-entry-points-into-existing-primary-file", "where", w, "bucket", b)
			if !ok {
				continue
			}
			vrt.Assert(plocal+4+uint64(loc.Size) <= uint64(len(pdata)), "fsck-primary-record-complete", "where", w, "bucket", b)
			if plocal+4+uint64(loc.Size) > uint64(len(pdata)) {
				continue
			}
			psize := binary.LittleEndian.Uint32(pdata[plocal:])
			vrt.Assert(psize&delBit == 0, "fsck-primary-record-not-deleted", "where", w, "bucket", b)
			vrt.Assert(psize&^delBit == loc.Size, "fsck-primary-record-size-matches-entry", "where", w, "bucket", b)
			rec := pdata[plocal+4 : plocal+4+uint64(loc.Size)]
			_, n1 := uvarint(rec)
			vrt.Assert(n1 > 0, "fsck-primary-key-parses", "where", w, "bucket", b)
			if n1 == 0 {
				continue
			}
			dl, n2 := uvarint(rec[n1:])
			vrt.Assert(n2 > 0 && n1+n2+int(dl) <= len(rec), "fsck-primary-key-parses", "where", w, "bucket", b)
			if n2 == 0 || n1+n2+int(dl) > len(rec) {
				continue
			}
			digest := rec[n1+n2 : n1+n2+int(dl)]
			vrt.Assert(len(digest) >= 4, "fsck-digest-at-least-4-bytes", "where", w, "bucket", b)
			if len(digest) < 4 {
				continue
			}
			vrt.Assert(binary.LittleEndian.Uint32(digest)&mask == uint32(b), "fsck-key-carries-bucket-bits", "where", w, "bucket", b)
			vrt.Assert(bytes.HasPrefix(digest[strip:], prefix), "fsck-key-carries-stored-prefix", "where", w, "bucket", b)
		}
	}
	if vrt.Param("orphans", 0) != 0 {
		// No orphans (C11/C13): in a store that never crashed, every complete, non-deleted
		// primary record is named by a live index entry or by a freelist entry (pool, file,
		// hand-over file) - otherwise nothing can ever release it.
		for f := uint64(ph.FirstFile); ; f++ {
			pdata, ok := readFile(in.PrimaryBase + "." + strconv.FormatUint(f, 10))
			if !ok {
				break
			}
			for off := uint64(0); off+4 <= uint64(len(pdata)); {
				psize := binary.LittleEndian.Uint32(pdata[off:])
				n := uint64(psize &^ delBit)
				if off+4+n > uint64(len(pdata)) {
					break // incomplete tail
				}
				if psize&delBit == 0 {
					abs := f*pfs + off
					named := false
					for _, l := range allLocs {
						if l.Offset == abs {
							named = true
						}
					}
					for _, l := range freed {
						if l.Offset == abs {
							named = true
						}
					}
					vrt.Assert(named, "fsck-no-orphan-primary-record", "where", w, "file", int(f), "offset", int(off))
				}
				off += 4 + n
			}
		}
	}
}
