//go:build race

package vsched

import "runtime"

func raceOff() { runtime.RaceDisable() }
func raceOn()  { runtime.RaceEnable() }
