// Package vsched enforces, during native replay, the schedule of visible operations
// that the symbolic engine recorded for a counterexample. The engine's rewriter inserts
// vsched.Point(...) before every visible synchronisation operation of the repository
// (and harness) sources, turns go statements into vsched.Go and timers into virtual
// timers that fire only when the schedule says so. Without a schedule (ordinary
// replays) every function here is a pass-through.
package vsched

import (
	"bytes"
	"fmt"
	"os"
	"runtime"
	"strconv"
	"sync"
	"time"
)

type Ev struct {
	T    int    `json:"t"`
	Kind string `json:"kind"`
	Pos  string `json:"pos"`
	N    int    `json:"n"`
}

// FSVisible is set by the replay driver from the run's fsvisible parameter before Start.
var FSVisible bool

var (
	mu      sync.Mutex
	cond    = sync.NewCond(&mu)
	active  bool
	enabled bool // inside the SchedBegin..SchedEnd window
	hasFS   bool // the recorded schedule contains file-system operations (param fsvisible)
	free    bool // schedule exhausted: everybody runs freely
	sched   []Ev
	head    int
	tids    []tidEnt // goroutine id -> thread id (a slice: map accesses are race-instrumented inside the runtime)
	nextTID = 1
	timers  []*vtimer
	diverge string
	started time.Time
)

type tidEnt struct {
	g int64
	t int
}

//go:norace
func tidOf(g int64) (int, bool) {
	for _, e := range tids {
		if e.g == g {
			return e.t, true
		}
	}
	return 0, false
}

type vtimer struct {
	ch     chan time.Time
	armed  bool
	ticker bool
}

func goid() int64 {
	var buf [64]byte
	n := runtime.Stack(buf[:], false)
	// "goroutine 123 ["
	b := buf[len("goroutine "):n]
	i := bytes.IndexByte(b, ' ')
	id, _ := strconv.ParseInt(string(b[:i]), 10, 64)
	return id
}

// Start activates schedule enforcement; the calling goroutine is thread 0.
func Start(s []Ev) {
	mu.Lock()
	defer mu.Unlock()
	sched = s
	head = 0
	active = len(s) > 0
	hasFS = FSVisible
	enabled = false
	free = false
	tids = []tidEnt{{goid(), 0}}
	nextTID = 1
	timers = nil
	started = time.Now()
	if active {
		go watchdog()
	}
}

func Active() bool { return active }

// Enable switches schedule enforcement on/off (thread numbering continues regardless).
func Enable(on bool) {
	mu.Lock()
	enabled = on
	cond.Broadcast()
	mu.Unlock()
}

// fireTimersLocked performs timer-firing events at the head of the schedule.
//
//go:norace
func fireTimersLocked() {
	for active && !free && head < len(sched) && sched[head].T < 0 {
		ev := sched[head]
		if ev.N < len(timers) {
			tm := timers[ev.N]
			select {
			case tm.ch <- time.Now():
			default:
			}
			if !tm.ticker {
				tm.armed = false
			}
		} else {
			diverge = fmt.Sprintf("timer %d fired by the schedule does not exist natively", ev.N)
		}
		head++
	}
	if active && !free && head >= len(sched) {
		free = true
		go freeRun()
	}
	cond.Broadcast()
}

// Point blocks until it is this goroutine's turn in the recorded schedule.
//
// Under the native race detector (race confirmation replays) the synchronisation this
// function performs itself must not create happens-before edges between the threads of
// the program under test: raceOff/raceOn make the detector ignore it, so that the
// detector sees exactly the program's own synchronisation, executed in the recorded order.
//
//go:norace
func Point(kind, pos string) {
	if !active {
		return
	}
	if !hasFS && len(kind) > 3 && kind[:3] == "fs:" {
		return // file-system operations were not scheduling points in this exploration
	}
	raceOff()
	defer raceOn()
	mu.Lock()
	defer mu.Unlock()
	if free || !enabled {
		return
	}
	me, ok := tidOf(goid())
	if !ok {
		return // a goroutine the engine does not know (runtime helpers)
	}
	for {
		fireTimersLocked()
		if free || !enabled {
			return
		}
		if sched[head].T == me {
			if sched[head].Kind != kind && diverge == "" {
				diverge = fmt.Sprintf("schedule position %d: engine recorded %s at %s for thread %d, native thread is at %s (%s)", head, sched[head].Kind, sched[head].Pos, me, kind, pos)
				fmt.Println("VERIF-SCHED-MISMATCH", diverge)
			}
			head++
			fireTimersLocked()
			return
		}
		cond.Wait()
	}
}

// Go starts f as the next thread (creation order gives the thread id).
func Go(pos string, f func()) {
	if !active {
		go f()
		return
	}
	Point("go", pos)
	mu.Lock()
	tid := nextTID
	nextTID++
	mu.Unlock()
	ready := make(chan struct{})
	go func() {
		mu.Lock()
		tids = append(tids, tidEnt{goid(), tid})
		mu.Unlock()
		close(ready)
		f()
	}()
	<-ready
}

//go:norace
func register(tid int, ready chan struct{}) {
	raceOff()
	mu.Lock()
	tids = append(tids, tidEnt{goid(), tid})
	mu.Unlock()
	close(ready)
	raceOn()
}

// ---- virtual timers ----

func newTimer(ticker bool) *vtimer {
	tm := &vtimer{ch: make(chan time.Time, 1), armed: true, ticker: ticker}
	mu.Lock()
	timers = append(timers, tm)
	mu.Unlock()
	return tm
}

// Timer / Ticker mirror the parts of time.Timer / time.Ticker the repository uses.
type Timer struct {
	C  <-chan time.Time
	vt *vtimer
	rt *time.Timer
}

type Ticker struct {
	C  <-chan time.Time
	vt *vtimer
	rt *time.Ticker
}

func NewTimer(d time.Duration) *Timer {
	if !active {
		rt := time.NewTimer(d)
		return &Timer{C: rt.C, rt: rt}
	}
	vt := newTimer(false)
	return &Timer{C: vt.ch, vt: vt}
}

func (t *Timer) Stop() bool {
	if t.rt != nil {
		return t.rt.Stop()
	}
	mu.Lock()
	defer mu.Unlock()
	was := t.vt.armed
	t.vt.armed = false
	return was
}

func (t *Timer) Reset(d time.Duration) bool {
	if t.rt != nil {
		return t.rt.Reset(d)
	}
	mu.Lock()
	defer mu.Unlock()
	was := t.vt.armed
	t.vt.armed = true
	return was
}

func NewTicker(d time.Duration) *Ticker {
	if !active {
		rt := time.NewTicker(d)
		return &Ticker{C: rt.C, rt: rt}
	}
	vt := newTimer(true)
	return &Ticker{C: vt.ch, vt: vt}
}

func (t *Ticker) Stop() {
	if t.rt != nil {
		t.rt.Stop()
		return
	}
	mu.Lock()
	t.vt.armed = false
	mu.Unlock()
}

// ---- end of schedule ----

var (
	mainDone = make(chan struct{})
	doneOnce sync.Once
)

// Finished is called by the replay driver when the harness function returned.
func Finished() { doneOnce.Do(func() { close(mainDone) }) }

// freeRun: the recorded schedule is exhausted. Everybody runs freely; armed virtual
// tickers keep ticking (so "flushes keep succeeding"), and if the harness still does not
// finish it is reported as a deadlock.
func freeRun() {
	for i := 0; i < 12; i++ {
		select {
		case <-mainDone:
			return
		case <-time.After(50 * time.Millisecond):
		}
		mu.Lock()
		for _, tm := range timers {
			if tm.armed && tm.ticker {
				select {
				case tm.ch <- time.Now():
				default:
				}
			}
		}
		cond.Broadcast()
		mu.Unlock()
	}
	select {
	case <-mainDone:
		return
	case <-time.After(500 * time.Millisecond):
	}
	fmt.Println("VERIF-DEADLOCK the harness did not finish although the recorded schedule was replayed completely and every armed ticker kept firing")
	buf := make([]byte, 1<<16)
	buf = buf[:runtime.Stack(buf, true)]
	os.Stdout.Write(buf)
	os.Exit(1)
}

func watchdog() {
	select {
	case <-mainDone:
	case <-time.After(20 * time.Second):
		mu.Lock()
		h, n, d := head, len(sched), diverge
		mu.Unlock()
		if h < n {
			fmt.Printf("VERIF-REPLAY-DIVERGED schedule replay stuck at event %d of %d (%v) %s\n", h, n, sched[h], d)
			buf := make([]byte, 1<<16)
			buf = buf[:runtime.Stack(buf, true)]
			os.Stdout.Write(buf)
			os.Exit(1)
		}
	}
}

// FireAll makes every armed virtual timer fire once (used after Close to show that no
// background activity is left). Returns the number of timers fired.
func FireAll() int {
	mu.Lock()
	defer mu.Unlock()
	n := 0
	for _, tm := range timers {
		if tm.armed {
			select {
			case tm.ch <- time.Now():
				n++
			default:
			}
			if !tm.ticker {
				tm.armed = false
			}
		}
	}
	return n
}
