//go:build !race

package vsched

func raceOff() {}
func raceOn()  {}
