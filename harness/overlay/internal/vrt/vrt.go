// Package vrt is the harness runtime. Under the symbolic engine every function
// here is intercepted (the bodies below are never executed); natively the bodies
// replay a recorded counterexample (VERIF_REPLAY=<file>).
package vrt

import (
	"encoding/hex"
	"encoding/json"
	"fmt"
	"io"
	"os"
	"path/filepath"
	"runtime"
	"sort"
	"strings"
	"sync"
	"testing"
	"time"

	"github.com/ipld/go-storethehash/internal/vrt/vsched"
)

type rv struct {
	Label string `json:"label"`
	Kind  string `json:"kind"`
	V     uint64 `json:"v"`
	Bytes string `json:"bytes"`
}

type replayFile struct {
	Property string         `json:"property"`
	Harness  string         `json:"harness"`
	Nondet   []rv           `json:"nondet"`
	Params   map[string]int `json:"params"`
	Known    []string       `json:"known"`
	Schedule []vsched.Ev    `json:"schedule"`
	Assert   struct {
		Label string         `json:"label"`
		Kind  string         `json:"kind"`
		Diag  map[string]any `json:"diag"`
	} `json:"assert"`
}

var (
	mu       sync.Mutex
	rf       replayFile
	pos      int
	used     []bool
	failed   []string
	tmpDirs  []string
	diverged string
)

type divergence struct{ msg string }

func diverge(f string, a ...any) {
	msg := fmt.Sprintf(f, a...)
	mu.Lock()
	if diverged == "" {
		diverged = msg
	}
	mu.Unlock()
	panic(divergence{msg})
}

func next(label, kind string) rv {
	mu.Lock()
	for pos < len(rf.Nondet) && used[pos] {
		pos++
	}
	if pos >= len(rf.Nondet) {
		mu.Unlock()
		diverge("replay vector exhausted at %s(%s)", kind, label)
	}
	r := rf.Nondet[pos]
	if r.Label != label || r.Kind != kind {
		p := pos
		mu.Unlock()
		diverge("replay vector mismatch at %d: have %s(%s), harness asks %s(%s)", p, r.Kind, r.Label, kind, label)
	}
	used[pos] = true
	pos++
	mu.Unlock()
	return r
}

// lookahead finds the first unconsumed entry with the label (crash-k / crash-t).
func lookahead(label string) (rv, bool) {
	mu.Lock()
	defer mu.Unlock()
	for i := pos; i < len(rf.Nondet); i++ {
		if !used[i] && rf.Nondet[i].Label == label {
			return rf.Nondet[i], true
		}
	}
	return rv{}, false
}

func Symbolic() bool { return false }

func U8(label string) uint8   { return uint8(next(label, "u8").V) }
func U32(label string) uint32 { return uint32(next(label, "u32").V) }
func U64(label string) uint64 { return next(label, "u64").V }
func Bool(label string) bool  { return next(label, "bool").V != 0 }
func Int(label string, lo, hi int) int {
	v := int(int64(next(label, "int").V))
	if v < lo || v > hi {
		diverge("Int(%s)=%d outside [%d,%d]", label, v, lo, hi)
	}
	return v
}
func Bytes(label string, n int) []byte {
	r := next(label, "bytes")
	b, err := hex.DecodeString(r.Bytes)
	if err != nil || len(b) != n {
		diverge("Bytes(%s): have %d bytes, want %d", label, len(b), n)
	}
	return b
}
func Choose(label string, n int) int {
	v := int(next(label, "choose").V)
	if v < 0 || v >= n {
		diverge("Choose(%s)=%d outside [0,%d)", label, v, n)
	}
	return v
}

func Assume(cond bool) {
	if !cond {
		diverge("assumption does not hold natively")
	}
}

func diagJSON(diag []any) string {
	m := map[string]any{}
	for i := 0; i+1 < len(diag); i += 2 {
		m[fmt.Sprint(diag[i])] = normalise(diag[i+1])
	}
	b, _ := json.Marshal(m)
	return string(b)
}

func normalise(v any) any {
	switch x := v.(type) {
	case int:
		return uint64(int64(x))
	case int64:
		return uint64(x)
	case int32:
		return uint64(int64(x))
	case uint8:
		return uint64(x)
	case uint32:
		return uint64(x)
	case uint64:
		return x
	case uint:
		return uint64(x)
	case bool, string:
		return x
	}
	return fmt.Sprint(v)
}

func Assert(cond bool, label string, diag ...any) {
	if cond {
		return
	}
	line := fmt.Sprintf("VERIF-ASSERT-FAIL %s %s", label, diagJSON(diag))
	fmt.Println(line)
	mu.Lock()
	failed = append(failed, line)
	mu.Unlock()
	// the symbolic path ends at its first failing assertion; so does the replay
	panic(assertStop{})
}

type assertStop struct{}

func Fail(label string, diag ...any) { Assert(false, label, diag...) }
func Cover(label string)             {}
func Note(s string)                  { fmt.Println("VERIF-NOTE", s) }

func Known(id string) bool {
	for _, k := range rf.Known {
		if k == id {
			return true
		}
	}
	return false
}

func Param(name string, def int) int {
	if v, ok := rf.Params[name]; ok {
		return v
	}
	return def
}

func TempDir() string {
	d, err := os.MkdirTemp("", "verifreplay")
	if err != nil {
		panic(err)
	}
	mu.Lock()
	tmpDirs = append(tmpDirs, d)
	mu.Unlock()
	return d
}

func copyTree(src, dst string) {
	filepath.Walk(src, func(p string, info os.FileInfo, err error) error {
		if err != nil {
			return nil
		}
		rel, _ := filepath.Rel(src, p)
		if info.IsDir() {
			os.MkdirAll(filepath.Join(dst, rel), 0o755)
			return nil
		}
		in, err := os.Open(p)
		if err != nil {
			return nil
		}
		defer in.Close()
		out, err := os.Create(filepath.Join(dst, rel))
		if err != nil {
			return nil
		}
		io.Copy(out, in)
		out.Close()
		return nil
	})
}

func CopyDir(src string) string {
	d := TempDir()
	copyTree(src, d)
	return d
}

func ListDir(dir string) []string {
	var out []string
	filepath.Walk(dir, func(p string, info os.FileInfo, err error) error {
		if err != nil || info.IsDir() {
			return nil
		}
		rel, _ := filepath.Rel(dir, p)
		out = append(out, rel)
		return nil
	})
	sort.Strings(out)
	return out
}

// ---- crash windows (native half lives in crash.go) ----

func OpenFiles() int {
	ents, err := os.ReadDir("/proc/self/fd")
	if err != nil {
		return -1
	}
	n := 0
	for _, e := range ents {
		l, err := os.Readlink("/proc/self/fd/" + e.Name())
		if err != nil {
			continue
		}
		for _, d := range tmpDirs {
			if strings.HasPrefix(l, d) {
				n++
				break
			}
		}
	}
	return n
}

// Goroutines returns the number of goroutines once it has settled (goroutines that were
// told to stop need a moment to return).
func Goroutines() int {
	n := runtime.NumGoroutine()
	for i := 0; i < 40; i++ {
		time.Sleep(5 * time.Millisecond)
		m := runtime.NumGoroutine()
		if m >= n && i > 4 {
			return m
		}
		n = m
	}
	return n
}

// Quiesce lets every other goroutine run until it blocks.
func Quiesce() {
	for i := 0; i < 5; i++ {
		runtime.Gosched()
		time.Sleep(2 * time.Millisecond)
	}
}

// SchedBegin/SchedEnd delimit the part of the harness whose interleavings the engine
// explores; natively they switch the enforcement of a recorded schedule on and off.
func SchedBegin() { vsched.Enable(true) }
func SchedEnd()   { vsched.Enable(false) }
func FireTimers() int { return vsched.FireAll() }

func HashUF(code uint64, n int, data []byte) []byte {
	panic("vrt.HashUF is only meaningful under the engine")
}

// RunReplay is called by the generated TestVerifReplay of each package.
func RunReplay(t *testing.T, harnesses map[string]func()) {
	path := os.Getenv("VERIF_REPLAY")
	if path == "" {
		t.Skip("VERIF_REPLAY not set")
	}
	data, err := os.ReadFile(path)
	if err != nil {
		t.Fatal(err)
	}
	if err = json.Unmarshal(data, &rf); err != nil {
		t.Fatal(err)
	}
	used = make([]bool, len(rf.Nondet))
	name := rf.Harness
	if i := strings.LastIndex(name, "."); i >= 0 {
		name = name[i+1:]
	}
	h, ok := harnesses[name]
	if !ok {
		t.Fatalf("VERIF-REPLAY-ERROR unknown harness %s", name)
	}
	defer func() {
		for _, d := range tmpDirs {
			os.RemoveAll(d)
		}
	}()
	func() {
		defer func() {
			if r := recover(); r != nil {
				if d, ok := r.(divergence); ok {
					fmt.Println("VERIF-REPLAY-DIVERGED", d.msg)
					return
				}
				if _, ok := r.(assertStop); ok {
					return
				}
				buf := make([]byte, 1<<14)
				buf = buf[:runtime.Stack(buf, false)]
				fmt.Printf("VERIF-PANIC %v\n%s\n", r, buf)
				mu.Lock()
				failed = append(failed, fmt.Sprintf("panic: %v", r))
				mu.Unlock()
			}
		}()
		vsched.FSVisible = rf.Params["fsvisible"] != 0
		if os.Getenv("VERIF_FREERUN") != "" {
			vsched.Start(nil) // race confirmation on free-running goroutines
		} else {
			vsched.Start(rf.Schedule)
		}
		defer vsched.Finished()
		h()
	}()
	if diverged != "" && len(failed) == 0 {
		fmt.Println("VERIF-REPLAY-DIVERGED", diverged)
		return
	}
	if len(failed) > 0 {
		t.Fail()
	} else {
		fmt.Println("VERIF-REPLAY-PASSED")
	}
}

// Non-short-circuit boolean connectives: under the engine they build one term
// instead of forking the path.
func Imp(a, b bool) bool { return !a || b }
func And(a, b bool) bool { return a && b }
func Or(a, b bool) bool  { return a || b }
