#!/usr/bin/env python3
"""Updates seeded/*/meta.json (detected_by) from seedrun result lines and prints a table.
usage: seedtable.py <log> [<log> ...]   (later logs override earlier ones per (seed, property))"""
import json,sys,os,re,glob
res={}
for log in sys.argv[1:]:
    for line in open(log):
        m=re.match(r'^(\S+) (C\d+) exit=(\d+) (\d+) violations; ?(.*)$',line.strip())
        if not m: continue
        sid,prop,ex,n,labels=m.groups()
        labs=[l.split(' diag=')[0].split(' replay=')[0] for l in labels.split(';') if l.strip()]
        res[(sid,prop)]=(int(ex),int(n),labs)
rows=[]
for d in sorted(glob.glob('/verif/seeded/*')):
    sid=os.path.basename(d)
    mp=d+'/meta.json'
    if not os.path.exists(mp): continue
    meta=json.load(open(mp))
    det=[]
    tried=[]
    for (s,p),(ex,n,labs) in sorted(res.items()):
        if s!=sid: continue
        tried.append(p)
        if ex==1:
            det.append({"check":"checks/run %s quick"%p,"exit":1,"violation_classes":n,"first_labels":labs[:2]})
    meta['detected_by']=det
    meta['checks_run']=[ "%s quick (exit %d)"%(p,res[(sid,p)][0]) for p in tried]
    json.dump(meta,open(mp,'w'),indent=1)
    rows.append((sid,meta['breaks_property'],", ".join("%s:%s"%(x['check'].split()[1],"/".join(x['first_labels'][:1])) for x in det) or ("MISSED (ran: %s)"%", ".join(meta['checks_run']) if tried else "not run")))
for r in rows: print("| %s | %s | %s |"%r)
