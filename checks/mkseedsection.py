#!/usr/bin/env python3
"""Prints the table rows of DESIGN.md section 13 from seeded/*/meta.json (run checks/seedtable.py first)."""
import json,glob,os,re
remarks={
 'C02_m2':"caught by C04 only at first; the deep H02Reopen run now has a symbolic primary file-size limit (the change manifests for one relation of limit and record size only)",
 'C06_m1':"caught by C04 only at first; K-IGC (3 records) added to C06",
 'C06_m2':"caught by C04 only at first; K-PGC added to C06",
 'C07_m1':"caught by C04 only at first; K-IGC (3 records) added to C07",
 'C09_m2':"missed at first; H09 gained a history with overwrites/removal before the change and adjacent bucket values",
 'C16_m1':"found symbolically only with one preemption (H16 collector pairs, P=1) and confirmed only after native race confirmation became schedule-enforced",
 'C17_m2':"UNCONFIRMED at first (deferred close not instrumented; post-Close check moved into the schedule window)",
 'r2_C04_m1':"missed at first; K-IGC2 (stopped and resumed index GC over several files) added",
 'r2_C09_m1':"missed at first; H09 pregc + 8->16 bits + unclean copy of the re-bucketed store added",
 'r2_C10_m1':"missed at first; H10Dangling added",
 'r2_C13_m1':"caught by C03 only at first; C13 crash clause added to H03Crash",
 'r2_C17_m1':"UNCONFIRMED at first (same cause as C17_m2)",
 'r2_C17_m2':"missed at first; H17 gained a re-bucketing open/close cycle",
 'r3_C05_m1':"missed at first (H05Lin has no real-time order); H05RT added",
 'r3_C05_m2':"missed at first; H05RT with two overlapping Flush calls added",
 'r3_C06_m1':"caught by C04 only at first; K-IGC added to C06 as sequential base case",
 'r3_C06_m2':"missed at first; H04GC prefix 8 added (C04, C06)",
 'r3_C07_m1':"caught by C03 only at first; K-SCAN added to C07",
 'r3_C08_m2':"missed at first; K-RL with 33 shared leading bytes added",
 'r3_C11_m2':"exit 3 (cover label unreachable) at first; K-PGC drain clause added",
 'r3_C12_m1':"missed at first (H12Wake fixes burstRate=0); H12Seq with symbolic burst allowance added",
 'r4_C02_m1':"missed at first; H02Reopen prefix 2 (bucket emptied after its list was flushed) added to C02",
 'r4_C03_m1':"missed by C03 at first (same change as C07_m1); K-IGC (3 records, rescan oracle) added to C03",
 'r4_C03_m2':"first run hung in solver retries (hard timeouts were not counted against the wall budget) -> solver deadline and cut-off added",
 'r4_C06_m1':"missed at first (no concurrent Flush in H06GC, no disk read at the end); Flush kind, all-keys-pending option and reopen added",
 'r4_C10_m2':"missed at first (double remapping is idempotent for the chunk layouts of the concrete limits); crash run with symbolic primary limit added",
 'r4_C13_m1':"missed at first: the interleaving is inside a segment the scheduler treats as atomic, valid only for race-free code; H13Conc now runs under the race monitor, which reports the race (C16 reports it too)",
 'r5_C01_m1':"missed at first (free histories of 2 operations do not read a rolled-over record list back from disk); H01Seq gained a scripted prefix",
 'r5_C07_m2':"missed by C07 at first (same change as C06_m2); K-PGC added to C07",
 'r5_C09_m1':"missed at first (keys never fell into the last bucket of the table); edge-bucket option added",
 'r5_C11_m2':"missed at first (a pure space leak: a relocated copy the index declined is never released); no-orphan clause added to the independent format reader",
 'r5_C16_m1':"missed at first (needs SyncOnFlush and a writer that flushes itself next to another Flush); SyncOnFlush runs and a fixed-pair run with two preemptions added",
 'r5_C16_m2':"missed at first (no state with several index files and pending work; GC always ran with its unused-file scan, which skips the record-level pass); prefix 9 and scan-free choice added",
 'r5_C17_m2':"missed at first (no failing Close); H17 scenario 3 added",
 'r6_C02_m1':"missed at first (nothing reopened by recovery scan what a snapshot-reopened session had written after an index GC); H02Reopen fourth open added",
 'r6_C03_m2':"missed at first (no Flush after a primary GC cycle inside a crash scenario); H04GC crash copy after the final Flush added to C03",
 'r6_C05_m1':"inconclusive at first (wall budget under load), then missed: no Put || Put || Flush run; added",
 'r6_C08_m2':"missed by C08 at first (the removed key itself was not looked up after the list moved to disk); K-RL removed-key clause added",
 'r6_C13_m1':"missed at first (K-PGC always flushed between cycles); idle-store variant with 'old location recorded at most once' added",
 'r6_C13_m2':"missed at first (legacy freelist entries not applied during the upgrade leave an unreferenced live record); H10Upgrade with the no-orphan clause added to C13 and C10",
 'r6_C15_m1':"missed at first (multihash headers were always 2 bytes); 128-byte identity digests added (the engine's multihash.Sum model gained varint lengths)",
 'C12_m2':"discarded (section 12)",
 'C04_m2':"superseded by fix a8f3406 (section 12)",
}
for d in sorted(glob.glob('/verif/seeded/*')):
    sid=os.path.basename(d)
    mp=d+'/meta.json'
    if not os.path.exists(mp): continue
    m=json.load(open(mp))
    title=open(d+'/README.md').readline().strip().lstrip('# ').strip()
    title=re.sub(r'^(Seeded (defect|mutation) )?(C\d+ ?/ ?)?m\d\s*[-:—]+\s*','',title)
    det=[]
    for x in m.get('detected_by',[]):
        lab=(x['first_labels'] or ['?'])[0]
        if lab.startswith('race:'):
            fs=re.findall(r'\)\.(\w+) \(',lab)
            lab='race '+'/'.join(fs[:2])
        det.append(x['check'].split()[1]+': '+lab)
    print("| %s | %s | %s | %s | %s |"%(sid,m['breaks_property'],title[:120].replace('|','/'),"; ".join(det) or '—',remarks.get(sid,'')))
