#!/usr/bin/env python3
"""Regenerates /verif/MANIFEST.json from checks/props.json and checks/claims.json."""
import json
props=[json.loads(l) for l in open('/verif/properties.jsonl')]
specs=json.load(open('/verif/checks/props.json'))
claims=json.load(open('/verif/checks/claims.json'))
checks=[]
na=[]
for p in props:
    pid=p['id']
    if pid in specs and pid in claims.get('claimed',{}):
        c=claims['claimed'][pid]
        checks.append({
            "property_id":pid,
            "quick_cmd":"/verif/checks/run %s quick"%pid,
            "thorough_cmd":"/verif/checks/run %s thorough"%pid,
            "evidence_file":"/verif/evidence/%s.json"%pid,
            "replay_cmd_template":"/verif/checks/replay {path}",
            "engine":"symgo",
            "level_claimed":{"category":specs[pid].get('level','model_checking'),"text":c['text'],"design_ref":c.get('design_ref','DESIGN.md section 4')},
            "level_note":c['note'],
            "technique":c.get('technique',"symbolic execution of the real code's Go SSA to SMT (z3/cvc5): every branch and assertion decided by the solver within stated bounds; counterexamples replayed natively"),
        })
    else:
        na.append({"property_id":pid,"reason":claims.get('not_applicable',{}).get(pid,"check not built yet")})
m={"version":1,
 "setup_cmd":"cd /verif/engine && GOTOOLCHAIN=local GOFLAGS=-mod=mod GOPROXY=off go1.26.8 build -o /verif/bin/symgo ./cmd/symgo",
 "hooks":{"guard":"verif","enable":"none needed: harnesses and accessors are injected by source overlay (go/packages Overlay for the symbolic run, go test -overlay for native replay); /repo carries no hook code","baseline_off_cmd":"cd /repo && GOFLAGS=-mod=mod go test -vet=off -count=1 -timeout 25m ./...","source_commits":[],"add_only":True},
 "engines":[{"name":"symgo","path":"/verif/engine","serves_properties":[c['property_id'] for c in checks],"kind_free_text":"own symbolic executor for Go SSA (go/ssa of /repo's current working tree, rebuilt on every run) -> SMT-LIB2 bit-vector queries to z3 4.8.12 / cvc5 1.0.3 (bv-as-int for non-linear position arithmetic) / z3 5.1.0; path-wise exploration by re-execution forking on 16 workers; in-memory FS, sync/chan/timer/context models; counterexamples replayed natively with go test -overlay"}],
 "checks":checks,
 "not_applicable":na,
 "notes":claims.get('notes','')}
json.dump(m,open('/verif/MANIFEST.json','w'),indent=1)
print("claimed:",[c['property_id'] for c in checks]); print("n/a:",[x['property_id'] for x in na])
