#!/usr/bin/env python3
"""Development aid: runs every thorough-only harness run of the given properties with a wall cap and
prints whether it completed cleanly; with --apply removes the runs that did not from checks/props.json.
usage: prunethorough.py [--apply] [--cap SECONDS] [--workers N] Cxx [Cyy ...]"""
import json,subprocess,sys,time,re,os
args=sys.argv[1:]
apply='--apply' in args
cap=150; workers=16
if '--cap' in args: cap=int(args[args.index('--cap')+1])
if '--workers' in args: workers=int(args[args.index('--workers')+1])
props=[a for a in args if re.match(r'^C\d+$',a)]
p='/verif/checks/props.json'
d=json.load(open(p))
env=dict(os.environ,GOFLAGS='-mod=mod',GOPROXY='off')
def key(r): return json.dumps([r['pkg'],r['fn'],r.get('params'),r.get('sched'),r.get('preempt'),r.get('race')],sort_keys=True)
for prop in props:
    quick={key(r) for r in d[prop]['quick']}
    keep=[]
    for r in d[prop]['thorough']:
        if key(r) in quick: keep.append(r); continue
        cmd=['timeout',str(cap+30),'/verif/bin/symgo','run','-repo','/repo','-pkg',r['pkg'],'-fn',r['fn'],'-workers',str(workers),'-solver-ms','30000']
        if r.get('sched'): cmd+=['-sched','-preempt',str(r.get('preempt',0))]
        if r.get('race'): cmd+=['-race']
        for k,v in (r.get('params') or {}).items(): cmd+=['-p',f'{k}={v}']
        t=time.time()
        e=dict(env,SYMGO_MAXWALL_S=str(cap))
        out=subprocess.run(cmd,capture_output=True,text=True,env=e).stdout
        wall=time.time()-t
        m=re.search(r'paths=(\d+) completed=(\d+)',out)
        bad=('INCONCLUSIVE' in out) or ('VIOLATION' in out) or ('ENGINE-ERROR' in out) or (m is None) or wall>cap
        unk=re.search(r'unknown=(\d+)',out)
        print(prop,r['fn'],json.dumps(r.get('params')),'P',r.get('preempt'),'paths',m.group(1) if m else '?','wall %.0fs'%wall,'DROP' if bad else 'ok', 'unknown='+(unk.group(1) if unk else '?'),flush=True)
        if not bad: keep.append(r)
    if apply:
        d[prop]['thorough']=keep
if apply:
    json.dump(d,open(p,'w'),indent=1)
