// Package term implements hash-consed bit-vector / boolean terms with a
// constant folder, a light simplifier, an evaluator and an SMT-LIB2 printer.
package term

import (
	"fmt"
	"math/bits"
	"sort"
	"strings"
)

type Op uint8

const (
	Const Op = iota
	Sym
	// boolean
	Not
	And
	Or
	Eq  // any sort, result bool
	Ite // cond bool, then/else same sort
	// bit-vector
	BvNot
	BvNeg
	BvAnd
	BvOr
	BvXor
	Add
	Sub
	Mul
	UDiv
	URem
	SDiv
	SRem
	Shl
	LShr
	AShr
	Ult
	Ule
	Slt
	Sle
	Concat  // A high, B low
	Extract // Val = hi<<8|lo
	Zext
	Sext
)

var opNames = map[Op]string{
	Not: "not", And: "and", Or: "or", Eq: "=", Ite: "ite",
	BvNot: "bvnot", BvNeg: "bvneg", BvAnd: "bvand", BvOr: "bvor", BvXor: "bvxor",
	Add: "bvadd", Sub: "bvsub", Mul: "bvmul", UDiv: "bvudiv", URem: "bvurem",
	SDiv: "bvsdiv", SRem: "bvsrem", Shl: "bvshl", LShr: "bvlshr", AShr: "bvashr",
	Ult: "bvult", Ule: "bvule", Slt: "bvslt", Sle: "bvsle", Concat: "concat",
}

// T is a term. W==0 means sort Bool, otherwise a bit-vector of W bits (1..64).
type T struct {
	Op      Op
	W       uint8
	A, B, C *T
	Val     uint64
	Name    string
	ID      uint32
	// HasMulDiv is true if the DAG contains a Mul/Div/Rem with two non-constant operands.
	NonLin bool
}

type key struct {
	op      Op
	w       uint8
	a, b, c uint32
	val     uint64
	name    string
}

// M is a term manager (hash-consing table). Not safe for concurrent use.
type M struct {
	tab   map[key]*T
	next  uint32
	True  *T
	False *T
}

func NewM() *M {
	m := &M{tab: make(map[key]*T, 1<<12), next: 1}
	m.True = m.mk(Const, 0, nil, nil, nil, 1, "")
	m.False = m.mk(Const, 0, nil, nil, nil, 0, "")
	return m
}

func (m *M) Size() int { return len(m.tab) }

func id(t *T) uint32 {
	if t == nil {
		return 0
	}
	return t.ID
}

func (m *M) mk(op Op, w uint8, a, b, c *T, val uint64, name string) *T {
	k := key{op, w, id(a), id(b), id(c), val, name}
	if t, ok := m.tab[k]; ok {
		return t
	}
	t := &T{Op: op, W: w, A: a, B: b, C: c, Val: val, Name: name, ID: m.next}
	m.next++
	switch op {
	case Mul, UDiv, URem, SDiv, SRem:
		if !a.IsConst() && !b.IsConst() {
			t.NonLin = true
		}
	}
	if a != nil && a.NonLin || b != nil && b.NonLin || c != nil && c.NonLin {
		t.NonLin = true
	}
	m.tab[k] = t
	return t
}

func mask(w uint8) uint64 {
	if w >= 64 {
		return ^uint64(0)
	}
	return (uint64(1) << w) - 1
}

func (t *T) IsConst() bool { return t.Op == Const }
func (t *T) IsBool() bool  { return t.W == 0 }
func (t *T) IsTrue() bool  { return t.Op == Const && t.W == 0 && t.Val == 1 }
func (t *T) IsFalse() bool { return t.Op == Const && t.W == 0 && t.Val == 0 }

// SignedVal returns the constant value sign-extended from W bits.
func (t *T) SignedVal() int64 { return sext(t.Val, t.W) }

func sext(v uint64, w uint8) int64 {
	if w >= 64 {
		return int64(v)
	}
	sh := 64 - uint(w)
	return int64(v<<sh) >> sh
}

func (m *M) Bool(b bool) *T {
	if b {
		return m.True
	}
	return m.False
}

func (m *M) BV(v uint64, w uint8) *T {
	if w == 0 {
		return m.Bool(v != 0)
	}
	return m.mk(Const, w, nil, nil, nil, v&mask(w), "")
}

func (m *M) NewSym(name string, w uint8) *T {
	return m.mk(Sym, w, nil, nil, nil, 0, name)
}

// ---- boolean ----

func (m *M) Not(a *T) *T {
	if a.IsConst() {
		return m.Bool(a.Val == 0)
	}
	if a.Op == Not {
		return a.A
	}
	return m.mk(Not, 0, a, nil, nil, 0, "")
}

func (m *M) And(a, b *T) *T {
	if a.IsFalse() || b.IsFalse() {
		return m.False
	}
	if a.IsTrue() {
		return b
	}
	if b.IsTrue() {
		return a
	}
	if a == b {
		return a
	}
	if a.ID > b.ID {
		a, b = b, a
	}
	return m.mk(And, 0, a, b, nil, 0, "")
}

func (m *M) Or(a, b *T) *T {
	if a.IsTrue() || b.IsTrue() {
		return m.True
	}
	if a.IsFalse() {
		return b
	}
	if b.IsFalse() {
		return a
	}
	if a == b {
		return a
	}
	if a.ID > b.ID {
		a, b = b, a
	}
	return m.mk(Or, 0, a, b, nil, 0, "")
}

func (m *M) Implies(a, b *T) *T { return m.Or(m.Not(a), b) }

func (m *M) Eq(a, b *T) *T {
	if a == b {
		return m.True
	}
	if a.W != b.W {
		panic(fmt.Sprintf("term.Eq width mismatch %d vs %d", a.W, b.W))
	}
	if a.IsConst() && b.IsConst() {
		return m.Bool(a.Val == b.Val)
	}
	if a.W == 0 {
		// boolean equality
		if a.IsConst() {
			a, b = b, a
		}
		if b.IsTrue() {
			return a
		}
		if b.IsFalse() {
			return m.Not(a)
		}
	}
	// put constant second
	if a.IsConst() {
		a, b = b, a
	}
	if b.IsConst() {
		// eq(zext(x), c)
		if a.Op == Zext {
			if b.Val>>a.A.W != 0 {
				return m.False
			}
			return m.Eq(a.A, m.BV(b.Val, a.A.W))
		}
		// eq(concat(h,l), c) -> eq(h,ch) & eq(l,cl)
		if a.Op == Concat {
			lw := a.B.W
			return m.And(m.Eq(a.A, m.BV(b.Val>>lw, a.A.W)), m.Eq(a.B, m.BV(b.Val, lw)))
		}
		// eq(ite(c,k1,k2), k) with constants
		if a.Op == Ite && a.B.IsConst() && a.C.IsConst() {
			tb := a.B.Val == b.Val
			fb := a.C.Val == b.Val
			switch {
			case tb && fb:
				return m.True
			case tb:
				return a.A
			case fb:
				return m.Not(a.A)
			default:
				return m.False
			}
		}
	} else if a.ID > b.ID {
		a, b = b, a
	}
	if a.Op == Concat && b.Op == Concat && a.B.W == b.B.W {
		return m.And(m.Eq(a.A, b.A), m.Eq(a.B, b.B))
	}
	return m.mk(Eq, 0, a, b, nil, 0, "")
}

func (m *M) Ite(c, a, b *T) *T {
	if c.IsTrue() {
		return a
	}
	if c.IsFalse() {
		return b
	}
	if a == b {
		return a
	}
	if a.W != b.W {
		panic("term.Ite width mismatch")
	}
	if a.W == 0 {
		if a.IsTrue() && b.IsFalse() {
			return c
		}
		if a.IsFalse() && b.IsTrue() {
			return m.Not(c)
		}
		if a.IsTrue() {
			return m.Or(c, b)
		}
		if a.IsFalse() {
			return m.And(m.Not(c), b)
		}
		if b.IsTrue() {
			return m.Or(m.Not(c), a)
		}
		if b.IsFalse() {
			return m.And(c, a)
		}
	}
	if c.Op == Not {
		return m.mk(Ite, a.W, c.A, b, a, 0, "")
	}
	return m.mk(Ite, a.W, c, a, b, 0, "")
}

// ---- bit-vector ----

func (m *M) BvNot(a *T) *T {
	if a.IsConst() {
		return m.BV(^a.Val, a.W)
	}
	if a.Op == BvNot {
		return a.A
	}
	return m.mk(BvNot, a.W, a, nil, nil, 0, "")
}

func (m *M) BvNeg(a *T) *T {
	if a.IsConst() {
		return m.BV(-a.Val, a.W)
	}
	return m.mk(BvNeg, a.W, a, nil, nil, 0, "")
}

func (m *M) chk(a, b *T, what string) {
	if a.W != b.W || a.W == 0 {
		panic(fmt.Sprintf("term.%s width mismatch %d vs %d", what, a.W, b.W))
	}
}

func (m *M) BvAnd(a, b *T) *T {
	m.chk(a, b, "BvAnd")
	if a.IsConst() && b.IsConst() {
		return m.BV(a.Val&b.Val, a.W)
	}
	if a.IsConst() {
		a, b = b, a
	}
	if b.IsConst() {
		if b.Val == 0 {
			return b
		}
		if b.Val == mask(a.W) {
			return a
		}
		// and with low mask of zext/concat: becomes zext(extract)
		if b.Val&(b.Val+1) == 0 { // low mask 2^k-1
			k := uint8(bits.Len64(b.Val))
			if k < a.W {
				return m.Zext(m.Extract(a, k-1, 0), a.W)
			}
		}
	}
	if a == b {
		return a
	}
	if a.ID > b.ID && !b.IsConst() {
		a, b = b, a
	}
	return m.mk(BvAnd, a.W, a, b, nil, 0, "")
}

func (m *M) BvOr(a, b *T) *T {
	m.chk(a, b, "BvOr")
	if a.IsConst() && b.IsConst() {
		return m.BV(a.Val|b.Val, a.W)
	}
	if a.IsConst() {
		a, b = b, a
	}
	if b.IsConst() {
		if b.Val == 0 {
			return a
		}
		if b.Val == mask(a.W) {
			return b
		}
	}
	if a == b {
		return a
	}
	if a.ID > b.ID && !b.IsConst() {
		a, b = b, a
	}
	return m.mk(BvOr, a.W, a, b, nil, 0, "")
}

func (m *M) BvXor(a, b *T) *T {
	m.chk(a, b, "BvXor")
	if a.IsConst() && b.IsConst() {
		return m.BV(a.Val^b.Val, a.W)
	}
	if a.IsConst() {
		a, b = b, a
	}
	if b.IsConst() && b.Val == 0 {
		return a
	}
	if a == b {
		return m.BV(0, a.W)
	}
	if a.ID > b.ID && !b.IsConst() {
		a, b = b, a
	}
	return m.mk(BvXor, a.W, a, b, nil, 0, "")
}

func (m *M) Add(a, b *T) *T {
	m.chk(a, b, "Add")
	if a.IsConst() && b.IsConst() {
		return m.BV(a.Val+b.Val, a.W)
	}
	if a.IsConst() {
		a, b = b, a
	}
	if b.IsConst() {
		if b.Val == 0 {
			return a
		}
		// (x + c1) + c2
		if a.Op == Add && a.B.IsConst() {
			return m.Add(a.A, m.BV(a.B.Val+b.Val, a.W))
		}
		if a.Op == Sub && a.B.IsConst() {
			return m.Add(a.A, m.BV(b.Val-a.B.Val, a.W))
		}
	} else if a.ID > b.ID {
		a, b = b, a
	}
	return m.mk(Add, a.W, a, b, nil, 0, "")
}

func (m *M) Sub(a, b *T) *T {
	m.chk(a, b, "Sub")
	if a.IsConst() && b.IsConst() {
		return m.BV(a.Val-b.Val, a.W)
	}
	if b.IsConst() {
		if b.Val == 0 {
			return a
		}
		return m.Add(a, m.BV(-b.Val, a.W))
	}
	if a == b {
		return m.BV(0, a.W)
	}
	// (x + y) - x = y ; (x+y)-y = x
	if a.Op == Add {
		if a.A == b {
			return a.B
		}
		if a.B == b {
			return a.A
		}
	}
	return m.mk(Sub, a.W, a, b, nil, 0, "")
}

func (m *M) Mul(a, b *T) *T {
	m.chk(a, b, "Mul")
	if a.IsConst() && b.IsConst() {
		return m.BV(a.Val*b.Val, a.W)
	}
	if a.IsConst() {
		a, b = b, a
	}
	if b.IsConst() {
		if b.Val == 0 {
			return b
		}
		if b.Val == 1 {
			return a
		}
	} else if a.ID > b.ID {
		a, b = b, a
	}
	return m.mk(Mul, a.W, a, b, nil, 0, "")
}

func (m *M) UDiv(a, b *T) *T {
	m.chk(a, b, "UDiv")
	if b.IsConst() {
		if b.Val == 0 {
			return m.BV(mask(a.W), a.W) // SMT-LIB semantics; callers guard zero
		}
		if a.IsConst() {
			return m.BV(a.Val/b.Val, a.W)
		}
		if b.Val == 1 {
			return a
		}
	}
	if a.IsConst() && a.Val == 0 {
		return a
	}
	return m.mk(UDiv, a.W, a, b, nil, 0, "")
}

func (m *M) URem(a, b *T) *T {
	m.chk(a, b, "URem")
	if b.IsConst() {
		if b.Val == 0 {
			return a
		}
		if a.IsConst() {
			return m.BV(a.Val%b.Val, a.W)
		}
		if b.Val == 1 {
			return m.BV(0, a.W)
		}
	}
	return m.mk(URem, a.W, a, b, nil, 0, "")
}

func (m *M) SDiv(a, b *T) *T {
	m.chk(a, b, "SDiv")
	if a.IsConst() && b.IsConst() && b.Val != 0 {
		x, y := sext(a.Val, a.W), sext(b.Val, b.W)
		if y == -1 {
			return m.BV(uint64(-x), a.W)
		}
		return m.BV(uint64(x/y), a.W)
	}
	if b.IsConst() && b.Val == 1 {
		return a
	}
	return m.mk(SDiv, a.W, a, b, nil, 0, "")
}

func (m *M) SRem(a, b *T) *T {
	m.chk(a, b, "SRem")
	if a.IsConst() && b.IsConst() && b.Val != 0 {
		x, y := sext(a.Val, a.W), sext(b.Val, b.W)
		if y == -1 {
			return m.BV(0, a.W)
		}
		return m.BV(uint64(x%y), a.W)
	}
	return m.mk(SRem, a.W, a, b, nil, 0, "")
}

func (m *M) Shl(a, b *T) *T {
	m.chk(a, b, "Shl")
	if b.IsConst() {
		if b.Val == 0 {
			return a
		}
		if b.Val >= uint64(a.W) {
			return m.BV(0, a.W)
		}
		if a.IsConst() {
			return m.BV(a.Val<<b.Val, a.W)
		}
		// shl(x, k) = concat(extract(x, w-k-1, 0), 0_k)
		k := uint8(b.Val)
		return m.Concat(m.Extract(a, a.W-k-1, 0), m.BV(0, k))
	}
	if a.IsConst() && a.Val == 0 {
		return a
	}
	return m.mk(Shl, a.W, a, b, nil, 0, "")
}

func (m *M) LShr(a, b *T) *T {
	m.chk(a, b, "LShr")
	if b.IsConst() {
		if b.Val == 0 {
			return a
		}
		if b.Val >= uint64(a.W) {
			return m.BV(0, a.W)
		}
		if a.IsConst() {
			return m.BV(a.Val>>b.Val, a.W)
		}
		k := uint8(b.Val)
		return m.Zext(m.Extract(a, a.W-1, k), a.W)
	}
	if a.IsConst() && a.Val == 0 {
		return a
	}
	return m.mk(LShr, a.W, a, b, nil, 0, "")
}

func (m *M) AShr(a, b *T) *T {
	m.chk(a, b, "AShr")
	if b.IsConst() {
		if b.Val == 0 {
			return a
		}
		if a.IsConst() {
			sh := b.Val
			if sh >= uint64(a.W) {
				sh = uint64(a.W) - 1
			}
			return m.BV(uint64(sext(a.Val, a.W)>>sh), a.W)
		}
		if b.Val < uint64(a.W) {
			k := uint8(b.Val)
			return m.Sext(m.Extract(a, a.W-1, k), a.W)
		}
	}
	return m.mk(AShr, a.W, a, b, nil, 0, "")
}

func (m *M) Ult(a, b *T) *T {
	m.chk(a, b, "Ult")
	if a.IsConst() && b.IsConst() {
		return m.Bool(a.Val < b.Val)
	}
	if a == b {
		return m.False
	}
	if b.IsConst() && b.Val == 0 {
		return m.False
	}
	if a.IsConst() && a.Val == mask(a.W) {
		return m.False
	}
	// ult(zext x, zext y) -> ult(x,y) when same inner width
	if a.Op == Zext && b.Op == Zext && a.A.W == b.A.W {
		return m.Ult(a.A, b.A)
	}
	if a.Op == Zext && b.IsConst() {
		if b.Val > mask(a.A.W) {
			return m.True
		}
		return m.Ult(a.A, m.BV(b.Val, a.A.W))
	}
	if b.Op == Zext && a.IsConst() {
		if a.Val >= mask(b.A.W) {
			return m.False
		}
		return m.Ult(m.BV(a.Val, b.A.W), b.A)
	}
	return m.mk(Ult, 0, a, b, nil, 0, "")
}

func (m *M) Ule(a, b *T) *T { return m.Not(m.Ult(b, a)) }

func (m *M) Slt(a, b *T) *T {
	m.chk(a, b, "Slt")
	if a.IsConst() && b.IsConst() {
		return m.Bool(sext(a.Val, a.W) < sext(b.Val, b.W))
	}
	if a == b {
		return m.False
	}
	// both zero-extended (non-negative) => unsigned compare
	if a.Op == Zext && b.Op == Zext {
		return m.Ult(a, b)
	}
	if a.Op == Zext && b.IsConst() {
		if sext(b.Val, b.W) < 0 {
			return m.False
		}
		return m.Ult(a, b)
	}
	if b.Op == Zext && a.IsConst() {
		if sext(a.Val, a.W) < 0 {
			return m.True
		}
		return m.Ult(a, b)
	}
	return m.mk(Slt, 0, a, b, nil, 0, "")
}

func (m *M) Sle(a, b *T) *T { return m.Not(m.Slt(b, a)) }

// Concat: a is the high part.
func (m *M) Concat(a, b *T) *T {
	w := a.W + b.W
	if w > 64 || a.W == 0 || b.W == 0 {
		panic(fmt.Sprintf("term.Concat bad widths %d %d", a.W, b.W))
	}
	if a.IsConst() && b.IsConst() {
		return m.BV(a.Val<<b.W|b.Val, w)
	}
	if a.IsConst() && a.Val == 0 {
		return m.Zext(b, w)
	}
	// concat(extract(x,h,m+1), extract(x,m,l)) = extract(x,h,l)
	if a.Op == Extract && b.Op == Extract && a.A == b.A {
		ah, al := uint8(a.Val>>8), uint8(a.Val)
		bh, bl := uint8(b.Val>>8), uint8(b.Val)
		if al == bh+1 {
			return m.Extract(a.A, ah, bl)
		}
	}
	// concat(extract(x,h,m+1), concat(extract(x,m,l), rest))
	if a.Op == Extract && b.Op == Concat && b.A.Op == Extract && a.A == b.A.A {
		al := uint8(a.Val)
		bh := uint8(b.A.Val >> 8)
		if al == bh+1 {
			return m.Concat(m.Concat(a, b.A), b.B)
		}
	}
	// concat(zext-free high zero): concat(0.., x) handled above.
	return m.mk(Concat, w, a, b, nil, 0, "")
}

func (m *M) Extract(a *T, hi, lo uint8) *T {
	if hi < lo || hi >= a.W {
		panic(fmt.Sprintf("term.Extract bad range [%d:%d] of %d", hi, lo, a.W))
	}
	w := hi - lo + 1
	if w == a.W {
		return a
	}
	switch a.Op {
	case Const:
		return m.BV(a.Val>>lo, w)
	case Extract:
		il := uint8(a.Val)
		return m.Extract(a.A, hi+il, lo+il)
	case Concat:
		lw := a.B.W
		if hi < lw {
			return m.Extract(a.B, hi, lo)
		}
		if lo >= lw {
			return m.Extract(a.A, hi-lw, lo-lw)
		}
		return m.Concat(m.Extract(a.A, hi-lw, 0), m.Extract(a.B, lw-1, lo))
	case Zext:
		iw := a.A.W
		if hi < iw {
			return m.Extract(a.A, hi, lo)
		}
		if lo >= iw {
			return m.BV(0, w)
		}
		return m.Zext(m.Extract(a.A, iw-1, lo), w)
	case Sext:
		iw := a.A.W
		if hi < iw {
			return m.Extract(a.A, hi, lo)
		}
	case Ite:
		if a.B.IsConst() || a.C.IsConst() {
			return m.Ite(a.A, m.Extract(a.B, hi, lo), m.Extract(a.C, hi, lo))
		}
	case BvAnd, BvOr, BvXor:
		if lo == 0 || a.B.IsConst() {
			x, y := m.Extract(a.A, hi, lo), m.Extract(a.B, hi, lo)
			switch a.Op {
			case BvAnd:
				return m.BvAnd(x, y)
			case BvOr:
				return m.BvOr(x, y)
			default:
				return m.BvXor(x, y)
			}
		}
	case Add, Sub, Mul:
		if lo == 0 {
			x, y := m.Extract(a.A, hi, 0), m.Extract(a.B, hi, 0)
			switch a.Op {
			case Add:
				return m.Add(x, y)
			case Sub:
				return m.Sub(x, y)
			default:
				return m.Mul(x, y)
			}
		}
	}
	return m.mk(Extract, w, a, nil, nil, uint64(hi)<<8|uint64(lo), "")
}

func (m *M) Zext(a *T, w uint8) *T {
	if w == a.W {
		return a
	}
	if w < a.W {
		panic("term.Zext narrowing")
	}
	if a.IsConst() {
		return m.BV(a.Val, w)
	}
	if a.Op == Zext {
		return m.Zext(a.A, w)
	}
	return m.mk(Zext, w, a, nil, nil, 0, "")
}

func (m *M) Sext(a *T, w uint8) *T {
	if w == a.W {
		return a
	}
	if w < a.W {
		panic("term.Sext narrowing")
	}
	if a.IsConst() {
		return m.BV(uint64(sext(a.Val, a.W)), w)
	}
	if a.Op == Zext { // zero-extended value is non-negative
		return m.Zext(a.A, w)
	}
	return m.mk(Sext, w, a, nil, nil, 0, "")
}

// Trunc/extend helper: convert a to width w, signed selects sign extension.
func (m *M) Resize(a *T, w uint8, signed bool) *T {
	switch {
	case w == a.W:
		return a
	case w < a.W:
		return m.Extract(a, w-1, 0)
	case signed:
		return m.Sext(a, w)
	default:
		return m.Zext(a, w)
	}
}

// ---- evaluation ----

// Model maps symbol names to values. Missing symbols default to 0 and are recorded.
type Model map[string]uint64

type Evaluator struct {
	Mod  Model
	memo map[*T]uint64
}

func NewEvaluator(mod Model) *Evaluator { return &Evaluator{Mod: mod, memo: map[*T]uint64{}} }

func (e *Evaluator) Eval(t *T) uint64 {
	switch t.Op {
	case Const:
		return t.Val
	case Sym:
		v, ok := e.Mod[t.Name]
		if !ok {
			e.Mod[t.Name] = 0
		}
		return v & maskB(t.W)
	}
	if v, ok := e.memo[t]; ok {
		return v
	}
	var r uint64
	w := t.W
	switch t.Op {
	case Not:
		r = 1 - e.Eval(t.A)
	case And:
		if e.Eval(t.A) == 0 {
			r = 0
		} else {
			r = e.Eval(t.B)
		}
	case Or:
		if e.Eval(t.A) == 1 {
			r = 1
		} else {
			r = e.Eval(t.B)
		}
	case Eq:
		r = b2u(e.Eval(t.A) == e.Eval(t.B))
	case Ite:
		if e.Eval(t.A) != 0 {
			r = e.Eval(t.B)
		} else {
			r = e.Eval(t.C)
		}
	case BvNot:
		r = ^e.Eval(t.A)
	case BvNeg:
		r = -e.Eval(t.A)
	case BvAnd:
		r = e.Eval(t.A) & e.Eval(t.B)
	case BvOr:
		r = e.Eval(t.A) | e.Eval(t.B)
	case BvXor:
		r = e.Eval(t.A) ^ e.Eval(t.B)
	case Add:
		r = e.Eval(t.A) + e.Eval(t.B)
	case Sub:
		r = e.Eval(t.A) - e.Eval(t.B)
	case Mul:
		r = e.Eval(t.A) * e.Eval(t.B)
	case UDiv:
		a, b := e.Eval(t.A), e.Eval(t.B)
		if b == 0 {
			r = mask(w)
		} else {
			r = a / b
		}
	case URem:
		a, b := e.Eval(t.A), e.Eval(t.B)
		if b == 0 {
			r = a
		} else {
			r = a % b
		}
	case SDiv:
		a, b := sext(e.Eval(t.A), w), sext(e.Eval(t.B), w)
		switch {
		case b == 0:
			if a >= 0 {
				r = mask(w)
			} else {
				r = 1
			}
		case b == -1:
			r = uint64(-a)
		default:
			r = uint64(a / b)
		}
	case SRem:
		a, b := sext(e.Eval(t.A), w), sext(e.Eval(t.B), w)
		switch {
		case b == 0:
			r = uint64(a)
		case b == -1:
			r = 0
		default:
			r = uint64(a % b)
		}
	case Shl:
		a, b := e.Eval(t.A), e.Eval(t.B)
		if b >= uint64(w) {
			r = 0
		} else {
			r = a << b
		}
	case LShr:
		a, b := e.Eval(t.A), e.Eval(t.B)
		if b >= uint64(w) {
			r = 0
		} else {
			r = a >> b
		}
	case AShr:
		a, b := sext(e.Eval(t.A), w), e.Eval(t.B)
		if b >= uint64(w) {
			b = uint64(w) - 1
		}
		r = uint64(a >> b)
	case Ult:
		r = b2u(e.Eval(t.A) < e.Eval(t.B))
	case Ule:
		r = b2u(e.Eval(t.A) <= e.Eval(t.B))
	case Slt:
		r = b2u(sext(e.Eval(t.A), t.A.W) < sext(e.Eval(t.B), t.B.W))
	case Sle:
		r = b2u(sext(e.Eval(t.A), t.A.W) <= sext(e.Eval(t.B), t.B.W))
	case Concat:
		r = e.Eval(t.A)<<t.B.W | e.Eval(t.B)
	case Extract:
		lo := uint8(t.Val)
		r = e.Eval(t.A) >> lo
	case Zext:
		r = e.Eval(t.A)
	case Sext:
		r = uint64(sext(e.Eval(t.A), t.A.W))
	default:
		panic("term.Eval: unknown op")
	}
	r &= maskB(w)
	e.memo[t] = r
	return r
}

func maskB(w uint8) uint64 {
	if w == 0 {
		return 1
	}
	return mask(w)
}

func b2u(b bool) uint64 {
	if b {
		return 1
	}
	return 0
}

// ---- symbols ----

// Syms collects the symbols occurring in t into set.
func Syms(t *T, seen map[*T]bool, out map[string]*T) {
	if t == nil || seen[t] {
		return
	}
	seen[t] = true
	if t.Op == Sym {
		out[t.Name] = t
		return
	}
	Syms(t.A, seen, out)
	Syms(t.B, seen, out)
	Syms(t.C, seen, out)
}

// ---- SMT-LIB printing ----

func sortOf(w uint8) string {
	if w == 0 {
		return "Bool"
	}
	return fmt.Sprintf("(_ BitVec %d)", w)
}

func SymName(n string) string {
	// quote with |...|; names never contain | or \
	return "|" + n + "|"
}

// Printer emits define-funs for shared DAG nodes.
type Printer struct {
	sb    *strings.Builder
	names map[*T]string
	syms  map[string]*T
	n     int
	body  strings.Builder
}

func NewPrinter() *Printer {
	return &Printer{names: map[*T]string{}, syms: map[string]*T{}}
}

func constStr(t *T) string {
	if t.W == 0 {
		if t.Val != 0 {
			return "true"
		}
		return "false"
	}
	if t.W%4 == 0 {
		return fmt.Sprintf("#x%0*x", int(t.W/4), t.Val)
	}
	return fmt.Sprintf("(_ bv%d %d)", t.Val, t.W)
}

// ref returns a reference to t, defining it first if needed.
func (p *Printer) ref(t *T) string {
	switch t.Op {
	case Const:
		return constStr(t)
	case Sym:
		p.syms[t.Name] = t
		return SymName(t.Name)
	}
	if n, ok := p.names[t]; ok {
		return n
	}
	var e string
	switch t.Op {
	case Extract:
		e = fmt.Sprintf("((_ extract %d %d) %s)", uint8(t.Val>>8), uint8(t.Val), p.ref(t.A))
	case Zext:
		e = fmt.Sprintf("((_ zero_extend %d) %s)", t.W-t.A.W, p.ref(t.A))
	case Sext:
		e = fmt.Sprintf("((_ sign_extend %d) %s)", t.W-t.A.W, p.ref(t.A))
	case Not, BvNot, BvNeg:
		e = fmt.Sprintf("(%s %s)", opNames[t.Op], p.ref(t.A))
	case Ite:
		e = fmt.Sprintf("(ite %s %s %s)", p.ref(t.A), p.ref(t.B), p.ref(t.C))
	default:
		e = fmt.Sprintf("(%s %s %s)", opNames[t.Op], p.ref(t.A), p.ref(t.B))
	}
	p.n++
	name := fmt.Sprintf("t%d", p.n)
	fmt.Fprintf(&p.body, "(define-fun %s () %s %s)\n", name, sortOf(t.W), e)
	p.names[t] = name
	return name
}

// Assert adds an assertion of t.
func (p *Printer) Assert(t *T) {
	r := p.ref(t)
	fmt.Fprintf(&p.body, "(assert %s)\n", r)
}

// Ref defines t and returns its name (for get-value).
func (p *Printer) Ref(t *T) string { return p.ref(t) }

// Text returns declarations followed by definitions and assertions.
func (p *Printer) Text() string {
	var sb strings.Builder
	names := make([]string, 0, len(p.syms))
	for n := range p.syms {
		names = append(names, n)
	}
	sort.Strings(names)
	for _, n := range names {
		fmt.Fprintf(&sb, "(declare-const %s %s)\n", SymName(n), sortOf(p.syms[n].W))
	}
	sb.WriteString(p.body.String())
	return sb.String()
}

func (p *Printer) SymList() []*T {
	names := make([]string, 0, len(p.syms))
	for n := range p.syms {
		names = append(names, n)
	}
	sort.Strings(names)
	out := make([]*T, len(names))
	for i, n := range names {
		out[i] = p.syms[n]
	}
	return out
}

func (t *T) String() string {
	p := NewPrinter()
	r := p.ref(t)
	if p.body.Len() == 0 {
		return r
	}
	return strings.TrimSpace(p.body.String()) + " => " + r
}
