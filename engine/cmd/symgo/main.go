package main

import (
	"flag"
	"fmt"
	"os"
	"runtime"
	"runtime/debug"
	"runtime/pprof"
	"strconv"
	"strings"
	"time"

	"symgo/interp"
	"symgo/solver"
)

func main() {
	debug.SetGCPercent(1000)
	if len(os.Args) < 2 {
		fmt.Fprintln(os.Stderr, "usage: symgo run|check|selftest ...")
		os.Exit(2)
	}
	switch os.Args[1] {
	case "run":
		cmdRun(os.Args[2:])
	case "check":
		cmdCheck(os.Args[2:])
	case "replay":
		cmdReplay(os.Args[2:])
	default:
		fmt.Fprintln(os.Stderr, "unknown command", os.Args[1])
		os.Exit(2)
	}
}

type paramFlag map[string]int

func (p paramFlag) String() string { return fmt.Sprint(map[string]int(p)) }
func (p paramFlag) Set(s string) error {
	kv := strings.SplitN(s, "=", 2)
	if len(kv) != 2 {
		return fmt.Errorf("want k=v")
	}
	v, err := strconv.Atoi(kv[1])
	if err != nil {
		return err
	}
	p[kv[0]] = v
	return nil
}

func cmdRun(args []string) {
	fs := flag.NewFlagSet("run", flag.ExitOnError)
	repo := fs.String("repo", "/repo", "repository")
	harness := fs.String("harness", "/verif/harness", "harness dir")
	pkg := fs.String("pkg", "store/index", "package (relative to module)")
	fn := fs.String("fn", "", "harness function")
	workers := fs.Int("workers", runtime.NumCPU(), "workers")
	maxPaths := fs.Int64("maxpaths", 0, "stop after n paths")
	sched := fs.Bool("sched", false, "scheduler mode")
	preempt := fs.Int("preempt", 1, "preemption bound")
	race := fs.Bool("race", false, "race monitor")
	verbose := fs.Bool("v", false, "verbose")
	timeout := fs.Int("solver-ms", 5000, "solver timeout")
	params := paramFlag{}
	fs.Var(params, "p", "harness parameter k=v")
	prof := fs.String("cpuprofile", "", "write cpu profile")
	fs.Parse(args)
	if *prof != "" {
		f, _ := os.Create(*prof)
		pprof.StartCPUProfile(f)
		defer pprof.StopCPUProfile()
	}

	t0 := time.Now()
	prog, err := interp.Load(*repo, *harness)
	if err != nil {
		fmt.Println("ENGINE-ERROR", err)
		os.Exit(3)
	}
	fmt.Printf("loaded in %.1fs\n", time.Since(t0).Seconds())
	cfg := &interp.Config{SolverTimeoutMs: *timeout, MaxSteps: 20_000_000, ConcCap: 64, Workers: *workers,
		Params: params, MaxPaths: *maxPaths, Sched: *sched, Preempt: *preempt, Race: *race, Verbose: *verbose, Known: map[string]bool{}}
	if m := params["maxsteps_m"]; m > 0 {
		cfg.MaxSteps = int64(m) * 1_000_000
	}
	if v := os.Getenv("SYMGO_MAXWALL_S"); v != "" {
		var n int
		fmt.Sscan(v, &n)
		if n > 0 {
			cfg.MaxWall = time.Duration(n) * time.Second
		}
	}
	pkgPath := interp.RepoModule
	if *pkg != "" && *pkg != "." {
		pkgPath += "/" + *pkg
	}
	res, err := interp.RunHarness(prog, cfg, pkgPath, *fn, func(f string, a ...any) { fmt.Printf(f+"\n", a...) })
	if err != nil {
		fmt.Println("ENGINE-ERROR", err)
		os.Exit(3)
	}
	printResult(res)
}

func printResult(res *interp.HarnessResult) {
	fmt.Printf("%s: paths=%d completed=%d assume-ended=%d steps=%d branches=%d feasQ=%d obligations=%d discharged=%d (trivial %d) maxdec=%d wall=%.1fs\n",
		res.Harness, res.Paths, res.Completed, res.AssumeEnded, res.Steps, res.Branches, res.FeasQ, res.Obligs, res.Discharged, res.Trivial, res.MaxDecisions, res.Wall.Seconds())
	g := &solver.Global
	fmt.Printf("solver: queries=%d cachehits=%d sat=%d unsat=%d unknown=%d errors=%d z3=%.1fs cvc5=%.1fs z3new=%.1fs\n",
		g.Queries, g.CacheHits, g.Sat, g.Unsat, g.Unknown, g.Errors, float64(g.NanosZ3)/1e9, float64(g.NanosCVC5)/1e9, float64(g.NanosZ3New)/1e9)
	for k, n := range res.Incon {
		fmt.Printf("INCONCLUSIVE x%d: %s\n", n, k)
	}
	for k, n := range res.EngineErrs {
		fmt.Printf("ENGINE-ERROR x%d: %s\n", n, k)
	}
	fmt.Printf("covers: %v expected: %v\n", res.Covers, res.Expected)
	for _, sm := range res.Samples {
		if len(sm.Notes) > 0 {
			fmt.Printf("notes: %v\n", sm.Notes)
		}
	}
	for _, v := range res.Violations {
		fmt.Printf("VIOLATION-CANDIDATE kind=%s label=%s diag=%v msg=%s\n   nondet=%v\n", v.Kind, v.Label, v.Diag, v.Msg, v.Nondet)
	}
}
