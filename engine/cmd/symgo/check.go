package main

func cmdCheck(args []string) {}
