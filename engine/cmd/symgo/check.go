package main

import (
	"bytes"
	"crypto/sha1"
	"encoding/json"
	"flag"
	"fmt"
	"os"
	"os/exec"
	"path/filepath"
	"runtime"
	"sort"
	"strings"
	"sync"
	"time"

	"symgo/interp"
	"symgo/solver"
)

// HRun is one harness run of a property check.
type HRun struct {
	Pkg     string         `json:"pkg"`
	Fn      string         `json:"fn"`
	Params  map[string]int `json:"params"`
	Sched   bool           `json:"sched"`
	Preempt int            `json:"preempt"`
	Race    bool           `json:"race"`
	Note    string         `json:"note"`
	SolverMs int           `json:"solver_ms"`
}

type PropSpec struct {
	Quick    []HRun   `json:"quick"`
	Thorough []HRun   `json:"thorough"`
	Level    string   `json:"level"`
	Assume   []string `json:"assumptions"`
	Bounds   string   `json:"bounds"`
}

type KnownFinding struct {
	ID       string         `json:"id"`
	Property string         `json:"property"`
	Harness  string         `json:"harness"`
	Label    string         `json:"label"`
	Where    map[string]any `json:"where"`
	What     string         `json:"what"`
}

type KnownFile struct {
	Findings []KnownFinding `json:"findings"`
	Fixed    []struct {
		Property string `json:"property"`
		Commit   string `json:"commit"`
		What     string `json:"what"`
	} `json:"fixed"`
}

func cmdCheck(args []string) {
	fs := flag.NewFlagSet("check", flag.ExitOnError)
	repo := fs.String("repo", "/repo", "repository")
	verif := fs.String("verif", "/verif", "verif dir")
	prop := fs.String("prop", "", "property id")
	tier := fs.String("tier", "quick", "quick|thorough")
	workers := fs.Int("workers", runtime.NumCPU(), "workers")
	noReplay := fs.Bool("noreplay", false, "skip native replay (development)")
	out := fs.String("outdir", "", "write evidence/replays/.gen below this directory instead of the verif dir")
	fs.Parse(args)
	outDir = *out
	if outDir == "" {
		outDir = *verif
	}
	os.Exit(runCheck(*repo, *verif, *prop, *tier, *workers, *noReplay))
}

var outDir string
var validatedTraces int

func runCheck(repo, verif, prop, tier string, workers int, noReplay bool) int {
	t0 := time.Now()
	var specs map[string]PropSpec
	data, err := os.ReadFile(filepath.Join(verif, "checks", "props.json"))
	if err != nil {
		fmt.Println("ENGINE-ERROR", err)
		return 3
	}
	if err = json.Unmarshal(data, &specs); err != nil {
		fmt.Println("ENGINE-ERROR props.json:", err)
		return 3
	}
	spec, ok := specs[prop]
	if !ok {
		fmt.Println("ENGINE-ERROR unknown property", prop)
		return 3
	}
	var known KnownFile
	if data, err = os.ReadFile(filepath.Join(verif, "known_findings.json")); err == nil {
		if err = json.Unmarshal(data, &known); err != nil {
			fmt.Println("ENGINE-ERROR known_findings.json:", err)
			return 3
		}
	}
	runs := spec.Quick
	if tier == "thorough" && len(spec.Thorough) > 0 {
		// the thorough tier is the thorough runs plus every quick run that is not among
		// them (what the quick tier detects, the thorough tier detects too)
		runs = append([]HRun{}, spec.Thorough...)
		key := func(r HRun) string { b, _ := json.Marshal([]any{r.Pkg, r.Fn, r.Params, r.Sched, r.Preempt, r.Race}); return string(b) }
		have := map[string]bool{}
		for _, r := range runs {
			have[key(r)] = true
		}
		for _, r := range spec.Quick {
			if !have[key(r)] {
				runs = append(runs, r)
			}
		}
	}
	seed := 0
	fmt.Sscan(os.Getenv("VERIF_SEED"), &seed)

	os.RemoveAll(filepath.Join(outDir, "replays", prop))
	harnessDir := filepath.Join(verif, "harness")
	prog, err := interp.Load(repo, harnessDir)
	if err != nil {
		fmt.Println("ENGINE-ERROR", err)
		writeEvidence(verif, prop, tier, seed, spec, nil, nil, time.Since(t0), "engine error: "+err.Error(), 0, nil)
		return 3
	}
	fmt.Printf("[%s %s] loaded %s in %.1fs\n", prop, tier, repo, time.Since(t0).Seconds())

	knownIDs := map[string]bool{}
	for _, k := range known.Findings {
		knownIDs[k.ID] = true
	}
	var results []*interp.HarnessResult
	status := 0
	coverSeen := map[string]map[string]int64{}
	coverWant := map[string][]string{}
	var problems []string
	for _, r := range runs {
		cfg := &interp.Config{SolverTimeoutMs: 5000, MaxSteps: 30_000_000, ConcCap: 64, Workers: workers,
			Params: r.Params, Sched: r.Sched, Preempt: r.Preempt, Race: r.Race, Known: knownIDs, Tier: tier}
		if m := r.Params["maxsteps_m"]; m > 0 {
			cfg.MaxSteps = int64(m) * 1_000_000 // per-path unwinding budget in millions of SSA instructions
		}
		cfg.MaxWall = 12 * time.Minute
		if tier == "thorough" {
			cfg.SolverTimeoutMs = 30000
			cfg.MaxWall = 90 * time.Minute
		}
		if v := os.Getenv("SYMGO_MAXWALL_S"); v != "" {
			var n int
			fmt.Sscan(v, &n)
			if n > 0 {
				cfg.MaxWall = time.Duration(n) * time.Second
			}
		}
		if r.SolverMs > 0 {
			cfg.SolverTimeoutMs = r.SolverMs
		}
		if cfg.Params == nil {
			cfg.Params = map[string]int{}
		}
		pkgPath := interp.RepoModule
		if r.Pkg != "" && r.Pkg != "." {
			pkgPath += "/" + r.Pkg
		}
		res, err := interp.RunHarness(prog, cfg, pkgPath, r.Fn, func(f string, a ...any) { fmt.Printf(f+"\n", a...) })
		if err != nil {
			fmt.Println("ENGINE-ERROR", err)
			problems = append(problems, err.Error())
			status = 3
			continue
		}
		results = append(results, res)
		fmt.Printf("[%s] %s %v: paths=%d completed=%d obligations=%d discharged=%d violations(classes)=%d inconclusive=%d wall=%.1fs\n",
			prop, r.Fn, r.Params, res.Paths, res.Completed, res.Obligs, res.Discharged, len(res.Violations), len(res.Incon), res.Wall.Seconds())
		for k, n := range res.Incon {
			fmt.Printf("INCONCLUSIVE property=%s harness=%s x%d: %s\n", prop, r.Fn, n, k)
			problems = append(problems, "inconclusive: "+k)
			status = 3
		}
		for k, n := range res.EngineErrs {
			fmt.Printf("ENGINE-ERROR property=%s harness=%s x%d: %s\n", prop, r.Fn, n, k)
			problems = append(problems, "engine error: "+k)
			status = 3
		}
		if res.Truncated && len(res.Violations) == 0 {
			fmt.Printf("INCONCLUSIVE property=%s harness=%s: exploration truncated: %s\n", prop, r.Fn, res.TruncatedWhy)
			problems = append(problems, "truncated: "+res.TruncatedWhy)
			status = 3
		}
		if res.Completed == 0 {
			fmt.Printf("VACUOUS property=%s harness=%s: no path reached the end of the harness\n", prop, r.Fn)
			problems = append(problems, "vacuous: no completed path in "+r.Fn)
			status = 3
		}
		for c, n := range res.Covers {
			if coverSeen[r.Fn] == nil {
				coverSeen[r.Fn] = map[string]int64{}
			}
			coverSeen[r.Fn][c] += n
		}
		coverWant[r.Fn] = res.Expected
	}
	// reachability witnesses: every cover label of a harness must be reached by at least one
	// of the runs of that harness (runs restricted to one scenario cannot reach the others)
	for fn, want := range coverWant {
		for _, c := range want {
			if coverSeen[fn][c] == 0 {
				fmt.Printf("VACUOUS property=%s harness=%s: cover label %q never reached\n", prop, fn, c)
				problems = append(problems, "vacuous: cover "+c+" not reached in "+fn)
				status = 3
			}
		}
	}

	// ---- native replay of every violation class ----
	type outcome struct {
		v          interp.Violation
		run        HRun
		replayPath string
		reproduced bool
		diverged   bool
		nativeDiag map[string]any
		output     string
		known      *KnownFinding
	}
	var outs []*outcome
	for i, res := range results {
		for _, v := range res.ViolationList() {
			outs = append(outs, &outcome{v: v, run: runs[i]})
		}
	}
	violations := 0
	knownSeen := map[string]bool{}
	if len(outs) > 0 && !noReplay {
		bins := map[string]string{}
		for _, o := range outs {
			key := o.run.Pkg
			if o.run.Race {
				key += "|race"
			}
			if _, ok := bins[key]; ok {
				continue
			}
			bin, err := buildReplayBinary(repo, verif, prog, o.run.Pkg, o.run.Race)
			if err != nil {
				fmt.Println("ENGINE-ERROR building native replay binary:", err)
				problems = append(problems, "replay build failed: "+err.Error())
				status = 3
			}
			bins[key] = bin
		}
		rdir := filepath.Join(outDir, "replays", prop)
		os.MkdirAll(rdir, 0o755)
		var wg sync.WaitGroup
		sem := make(chan struct{}, workers)
		for _, o := range outs {
			key := o.run.Pkg
			if o.run.Race {
				key += "|race"
			}
			bin := bins[key]
			if bin == "" {
				continue
			}
			wg.Add(1)
			sem <- struct{}{}
			go func(o *outcome) {
				defer wg.Done()
				defer func() { <-sem }()
				rp := writeReplay(rdir, prop, tier, o.v, o.run, knownIDs)
				o.replayPath = rp
				// sequential counterexamples are deterministic except for Go's randomised map
				// iteration (e.g. the order in which a flush writes buckets decides the file
				// layout; the engine iterates in insertion order): a few tries
				tries := 8
				if o.v.Kind == "race" {
					tries = 25 // free-running goroutines under the native race detector
				} else if o.v.Kind == "deadlock" || o.run.Sched {
					tries = 2
				}
				for t := 0; t < tries && !o.reproduced; t++ {
					// races: first under the recorded schedule (the replay runtime hides its own
					// synchronisation from the native detector), then on free-running goroutines
					var env []string
					if o.v.Kind == "race" && t >= 3 {
						env = []string{"VERIF_FREERUN=1"}
					}
					out, derr := runReplay(repo, bin, o.run.Pkg, rp, env...)
					o.output = out
					o.reproduced, o.diverged, o.nativeDiag = judgeReplay(o.v, out, derr)
					if nl, ok := o.nativeDiag["_native_label"].(string); ok {
						o.v.Msg += " (symbolic label " + o.v.Label + ")"
						o.v.Label = nl
						delete(o.nativeDiag, "_native_label")
					}
				}
			}(o)
		}
		wg.Wait()
		for _, o := range outs {
			if o.replayPath == "" {
				continue
			}
			switch {
			case o.reproduced:
				if k := matchKnown(known.Findings, prop, o.v, o.nativeDiag); k != nil {
					o.known = k
					if !knownSeen[k.ID] {
						knownSeen[k.ID] = true
						fmt.Printf("KNOWN-FINDING: property=%s %s [%s]\n", prop, k.What, k.ID)
					}
				} else {
					violations++
					fmt.Printf("VIOLATION property=%s replay=%s\n", prop, o.replayPath)
					fmt.Printf("  harness=%s kind=%s label=%s diag=%v %s\n", o.v.Harness, o.v.Kind, o.v.Label, o.nativeDiag, o.v.Msg)
				}
			default:
				fmt.Printf("UNCONFIRMED property=%s harness=%s kind=%s label=%s replay=%s (symbolic counterexample did not reproduce natively: engine/model defect)\n",
					prop, o.v.Harness, o.v.Kind, o.v.Label, o.replayPath)
				tail := o.output
				if len(tail) > 1500 {
					tail = tail[len(tail)-1500:]
				}
				fmt.Println(indent(tail))
				problems = append(problems, "unconfirmed counterexample "+o.v.Label)
				if status == 0 {
					status = 3
				}
			}
		}
	} else if len(outs) > 0 {
		for _, o := range outs {
			fmt.Printf("CANDIDATE (not replayed) property=%s harness=%s kind=%s label=%s diag=%v %s\n  nondet=%v\n", prop, o.v.Harness, o.v.Kind, o.v.Label, o.v.Diag, o.v.Msg, o.v.Nondet)
		}
	}
	// ---- translator validation: re-run sampled passing paths natively ----
	validated, mismatches := 0, 0
	if !noReplay && status == 0 && violations == 0 {
		rdir := filepath.Join(outDir, "replays", prop, "samples")
		os.MkdirAll(rdir, 0o755)
		bins := map[string]string{}
		for i, res := range results {
			run := runs[i]
			if run.Race || run.Sched {
				// schedule replays of passing paths can diverge at a native select with several
				// ready cases; they are not used for validation
				continue
			}
			n := 0
			for _, smp := range res.Samples {
				if !smp.Complete || n >= 3 {
					continue
				}
				bin, ok := bins[run.Pkg]
				if !ok {
					var err error
					bin, err = buildReplayBinary(repo, verif, prog, run.Pkg, false)
					if err != nil {
						fmt.Println("ENGINE-ERROR building native replay binary:", err)
						status = 3
						bin = ""
					}
					bins[run.Pkg] = bin
				}
				if bin == "" {
					continue
				}
				n++
				v := interp.Violation{Harness: res.Harness, Kind: "sample", Label: "sampled-passing-path", Nondet: smp.Nondet, Schedule: smp.Schedule}
				rp := writeReplay(rdir, prop, tier, v, run, knownIDs)
				out, _ := runReplay(repo, bin, run.Pkg, rp)
				switch {
				case strings.Contains(out, "VERIF-REPLAY-PASSED"):
					validated++
				case strings.Contains(out, "VERIF-ASSERT-FAIL") || strings.Contains(out, "VERIF-PANIC") || strings.Contains(out, "VERIF-DEADLOCK"):
					// known findings may legitimately fail on a sampled input? no: a sampled path passed symbolically
					mismatches++
					fmt.Printf("ENGINE-MISMATCH property=%s harness=%s: a path that passed symbolically fails natively with its own model (engine/model defect) replay=%s\n", prop, res.Harness, rp)
					tail := out
					if len(tail) > 1200 {
						tail = tail[len(tail)-1200:]
					}
					fmt.Println(indent(tail))
					problems = append(problems, "engine mismatch on sampled path")
					status = 3
				default:
					// diverged (e.g. native select nondeterminism under a schedule): not counted
					fmt.Printf("note: sampled path of %s did not replay to the end natively (not counted as validated)\n", res.Harness)
				}
			}
		}
	}
	validatedTraces = validated
	var kf []string
	for id := range knownSeen {
		kf = append(kf, id)
	}
	sort.Strings(kf)
	writeEvidence(verif, prop, tier, seed, spec, runs, results, time.Since(t0), strings.Join(problems, "; "), violations, kf)
	g := &solver.Global
	fmt.Printf("[%s %s] solver queries=%d cachehits=%d sat=%d unsat=%d unknown=%d errors=%d z3=%.1fs cvc5=%.1fs z3new=%.1fs total wall=%.1fs\n",
		prop, tier, g.Queries, g.CacheHits, g.Sat, g.Unsat, g.Unknown, g.Errors, float64(g.NanosZ3)/1e9, float64(g.NanosCVC5)/1e9, float64(g.NanosZ3New)/1e9, time.Since(t0).Seconds())
	if violations > 0 {
		return 1
	}
	return status
}

func indent(s string) string {
	return "    | " + strings.ReplaceAll(strings.TrimSpace(s), "\n", "\n    | ")
}

func matchKnown(list []KnownFinding, prop string, v interp.Violation, diag map[string]any) *KnownFinding {
	for i := range list {
		k := &list[i]
		if k.Property != prop && k.Property != "*" {
			continue
		}
		if k.Harness != "" && !strings.HasSuffix(v.Harness, k.Harness) {
			continue
		}
		if k.Label != "" && k.Label != v.Label {
			continue
		}
		ok := true
		for key, want := range k.Where {
			if strings.HasSuffix(key, "_contains") {
				have := fmt.Sprint(diag[strings.TrimSuffix(key, "_contains")])
				if !strings.Contains(have, fmt.Sprint(want)) {
					ok = false
				}
				continue
			}
			if fmt.Sprint(diag[key]) != fmt.Sprint(want) {
				ok = false
			}
		}
		if ok {
			return k
		}
	}
	return nil
}

func writeReplay(dir, prop, tier string, v interp.Violation, run HRun, known map[string]bool) string {
	var ks []string
	for k := range known {
		ks = append(ks, k)
	}
	sort.Strings(ks)
	doc := map[string]any{
		"property": prop, "harness": v.Harness, "tier": tier, "nondet": v.Nondet, "params": run.Params, "known": ks,
		"assert": map[string]any{"label": v.Label, "kind": v.Kind, "diag": v.Diag, "msg": v.Msg},
		"sched":  run.Sched, "schedule": v.Schedule,
	}
	b, _ := json.MarshalIndent(doc, "", " ")
	h := sha1.Sum(b)
	name := fmt.Sprintf("%s-%x.json", v.Harness[strings.LastIndex(v.Harness, ".")+1:], h[:5])
	p := filepath.Join(dir, name)
	os.WriteFile(p, b, 0o644)
	return p
}

var (
	instrOnce sync.Once
	instrMap  map[string]string
	instrErr  error
)

// buildReplayBinary compiles the package's test binary with the harness overlay.
func buildReplayBinary(repo, verif string, prog *interp.Program, pkg string, race bool) (string, error) {
	gen := filepath.Join(outDir, ".gen")
	os.MkdirAll(gen, 0o755)
	ov, src, err := interp.BuildOverlay(filepath.Join(verif, "harness"), repo, true)
	if err != nil {
		return "", err
	}
	_ = ov
	repl := map[string]string{}
	for dst, s := range src {
		repl[dst] = s
	}
	// generated test drivers: one per package that has harness functions
	for dir, fns := range prog.HarnessFuncs() {
		var sb strings.Builder
		fmt.Fprintf(&sb, "package %s\n\nimport (\n\t\"testing\"\n\n\t\"%s/internal/vrt\"\n)\n\nfunc TestVerifReplay(t *testing.T) {\n\tvrt.RunReplay(t, map[string]func(){\n", fns.PkgName, interp.RepoModule)
		for _, f := range fns.Names {
			fmt.Fprintf(&sb, "\t\t%q: %s,\n", f, f)
		}
		sb.WriteString("\t})\n}\n")
		gp := filepath.Join(gen, strings.ReplaceAll(strings.TrimPrefix(dir, repo), "/", "_")+"_zz_verif_replay_test.go")
		if err := os.WriteFile(gp, []byte(sb.String()), 0o644); err != nil {
			return "", err
		}
		repl[filepath.Join(dir, "zz_verif_replay_test.go")] = gp
	}
	// instrumented copies of the repository sources (crash-window replay)
	instrOnce.Do(func() {
		os.RemoveAll(filepath.Join(gen, "instr"))
		instrMap, instrErr = interp.InstrumentVFS(prog.Initial, repo, filepath.Join(gen, "instr"))
	})
	instr, err := instrMap, instrErr
	if err != nil {
		return "", err
	}
	for orig, cp := range instr {
		repl[orig] = cp
	}
	ovJSON, _ := json.Marshal(map[string]any{"Replace": repl})
	ovPath := filepath.Join(gen, "overlay.json")
	if err := os.WriteFile(ovPath, ovJSON, 0o644); err != nil {
		return "", err
	}
	binName := strings.ReplaceAll(pkg, "/", "_")
	if binName == "" || binName == "." {
		binName = "root"
	}
	if race {
		binName += "_race"
	}
	bin := filepath.Join(gen, binName+".test")
	args := []string{"test", "-c", "-vet=off", "-overlay", ovPath, "-o", bin}
	if race {
		args = append(args, "-race")
	}
	p := "./" + pkg
	if pkg == "" || pkg == "." {
		p = "."
	}
	args = append(args, p)
	cmd := exec.Command("go", args...)
	cmd.Dir = repo
	cmd.Env = append(os.Environ(), "GOFLAGS=-mod=mod", "GOPROXY=off", "GOTOOLCHAIN=auto", "GOSUMDB=")
	var out bytes.Buffer
	cmd.Stdout, cmd.Stderr = &out, &out
	if err := cmd.Run(); err != nil {
		return "", fmt.Errorf("go test -c failed: %v\n%s", err, out.String())
	}
	return bin, nil
}

func runReplay(repo, bin, pkg, replay string, env ...string) (string, error) {
	cmd := exec.Command(bin, "-test.run", "^TestVerifReplay$", "-test.v", "-test.timeout", "60s")
	cmd.Dir = filepath.Join(repo, pkg)
	cmd.Env = append(append(os.Environ(), "VERIF_REPLAY="+replay), env...)
	var out bytes.Buffer
	cmd.Stdout, cmd.Stderr = &out, &out
	done := make(chan error, 1)
	if err := cmd.Start(); err != nil {
		return "", err
	}
	go func() { done <- cmd.Wait() }()
	select {
	case err := <-done:
		return out.String(), err
	case <-time.After(90 * time.Second):
		cmd.Process.Kill()
		<-done
		return out.String() + "\nVERIF-REPLAY-TIMEOUT\n", fmt.Errorf("timeout")
	}
}

func judgeReplay(v interp.Violation, out string, runErr error) (reproduced, diverged bool, diag map[string]any) {
	diag = map[string]any{}
	if strings.Contains(out, "VERIF-REPLAY-DIVERGED") && !strings.Contains(out, "VERIF-ASSERT-FAIL") && !strings.Contains(out, "VERIF-PANIC") {
		return false, true, diag
	}
	switch v.Kind {
	case "assert":
		other, otherDiag := "", ""
		for _, line := range strings.Split(out, "\n") {
			if !strings.HasPrefix(line, "VERIF-ASSERT-FAIL ") {
				continue
			}
			rest := strings.TrimPrefix(line, "VERIF-ASSERT-FAIL ")
			sp := strings.IndexByte(rest, ' ')
			if sp < 0 {
				continue
			}
			if rest[:sp] == v.Label {
				json.Unmarshal([]byte(rest[sp+1:]), &diag)
				return true, false, diag
			}
			if other == "" {
				other, otherDiag = rest[:sp], rest[sp+1:]
			}
		}
		if other != "" {
			// the real code failed another assertion of the same harness on the replayed
			// input/schedule (e.g. timing after the recorded schedule differs): still a
			// native failure of this property's oracle
			json.Unmarshal([]byte(otherDiag), &diag)
			diag["_native_label"] = other
			return true, false, diag
		}
	case "panic":
		if i := strings.Index(out, "VERIF-PANIC "); i >= 0 {
			line := out[i+12:]
			if j := strings.IndexByte(line, '\n'); j >= 0 {
				line = line[:j]
			}
			diag["msg"] = line
			return true, false, diag
		}
		if strings.Contains(out, "panic: ") || strings.Contains(out, "fatal error: ") {
			i := strings.Index(out, "panic: ")
			if i < 0 {
				i = strings.Index(out, "fatal error: ")
			}
			line := out[i:]
			if j := strings.IndexByte(line, '\n'); j >= 0 {
				line = line[:j]
			}
			diag["msg"] = line
			return true, false, diag
		}
	case "deadlock":
		if strings.Contains(out, "all goroutines are asleep") || strings.Contains(out, "VERIF-REPLAY-TIMEOUT") || strings.Contains(out, "test timed out") || strings.Contains(out, "VERIF-DEADLOCK") {
			diag["msg"] = "deadlock"
			return true, false, diag
		}
	case "race":
		if strings.Contains(out, "WARNING: DATA RACE") {
			// a native report must have the two functions of the symbolic report as its two
			// conflicting accesses (innermost frames)
			fns := raceFuncs(v.Label)
			if raceReportMatches(out, fns) {
				diag["msg"] = v.Label
				diag["funcs"] = strings.Join(fns, ",")
				return true, false, diag
			}
		}
	}
	return false, false, diag
}

// ---- evidence ----

func writeEvidence(verif, prop, tier string, seed int, spec PropSpec, runs []HRun, results []*interp.HarnessResult, wall time.Duration, problems string, violations int, knownSeen []string) {
	level := spec.Level
	if level == "" {
		level = "model_checking"
	}
	var paths, completed, obligs, discharged, trivial, feasQ, branches, steps int64
	var distinct int
	var samples []any
	var harnesses []any
	fnSet := map[string][2]int{}
	covers := map[string]int64{}
	for i, r := range results {
		paths += r.Paths
		completed += r.Completed
		obligs += r.Obligs
		discharged += r.Discharged
		trivial += r.Trivial
		feasQ += r.FeasQ
		branches += r.Branches
		steps += r.Steps
		distinct += r.Distinct
		for c, n := range r.Covers {
			covers[c] += n
		}
		for _, s := range r.Samples {
			if len(samples) < 8 {
				samples = append(samples, map[string]any{"harness": r.Harness, "path": s})
			}
		}
		h := map[string]any{"harness": r.Harness, "paths": r.Paths, "completed_paths": r.Completed, "paths_ended_by_assume": r.AssumeEnded,
			"ssa_instructions": r.Steps, "symbolic_branch_decisions": r.Branches, "feasibility_queries": r.FeasQ,
			"obligations": r.Obligs, "discharged": r.Discharged, "discharged_by_constant_folding_or_earlier_branch_query": r.Trivial,
			"max_decisions_on_a_path": r.MaxDecisions, "violation_classes": len(r.Violations), "wall_s": r.Wall.Seconds(),
			"cover_witnesses": r.Covers, "expected_covers": r.Expected}
		if i < len(runs) {
			h["params"] = runs[i].Params
			h["scheduler_mode"] = runs[i].Sched
			h["preemption_bound"] = runs[i].Preempt
			h["race_monitor"] = runs[i].Race
			h["note"] = runs[i].Note
		}
		harnesses = append(harnesses, h)
		for name, tf := range r.FuncCoverage() {
			cur := fnSet[name]
			if tf[0] > cur[0] {
				cur[0] = tf[0]
			}
			cur[1] = tf[1]
			fnSet[name] = cur
		}
	}
	var fnames []string
	for n := range fnSet {
		fnames = append(fnames, n)
	}
	sort.Strings(fnames)
	var encoded []string
	for _, n := range fnames {
		encoded = append(encoded, fmt.Sprintf("%s [branches both ways: %d/%d]", n, fnSet[n][0], fnSet[n][1]))
	}
	if len(samples) == 0 {
		samples = append(samples, map[string]any{"note": "no completed path"})
	}
	g := &solver.Global
	cov := map[string]any{
		"states":                        paths,
		"transitions":                   branches + paths,
		"traces_validated_against_impl": validatedTraces,
		"samples":                       samples,
		"evaluations":                   paths,
		"distinct_nontrivial":           distinct,
		"rule":                          "one evaluation = one feasible symbolic path (distinct decision vector) through harness + real code; it is non-trivial when it ran to the end of the harness and carried at least one assertion obligation; every path stands for all concrete inputs satisfying its path condition",
		"obligations":                   obligs,
		"discharged":                    discharged,
		"explanation":                   "SSA of /repo's current tree interpreted symbolically; every symbolic branch decided by SMT feasibility queries; assertions are queries pc ∧ ¬assertion that must be unsat; violations replayed natively",
		"harnesses":                     harnesses,
		"functions_encoded":             encoded,
		"bounds":                        spec.Bounds,
		"solver": map[string]any{"queries": g.Queries, "cache_hits": g.CacheHits, "sat": g.Sat, "unsat": g.Unsat, "unknown": g.Unknown, "errors": g.Errors,
			"z3_s": float64(g.NanosZ3) / 1e9, "cvc5_s": float64(g.NanosCVC5) / 1e9, "z3new_s": float64(g.NanosZ3New) / 1e9, "trivial": g.Trivial},
		"cover_witnesses":   covers,
		"known_findings":    knownSeen,
		"problems":          problems,
		"exhaustive":        problems == "",
		"completed_paths":   completed,
		"ssa_instructions":  steps,
		"trivially_discharged": trivial,
	}
	ev := map[string]any{
		"property_id": prop, "tier": tier, "seed": seed, "level": level, "coverage": cov,
		"assumptions": spec.Assume, "wall_s": wall.Seconds(), "violations": violations,
	}
	b, _ := json.MarshalIndent(ev, "", " ")
	os.MkdirAll(filepath.Join(outDir, "evidence"), 0o755)
	os.WriteFile(filepath.Join(outDir, "evidence", prop+".json"), b, 0o644)
}

func cmdReplay(args []string) {
	fs := flag.NewFlagSet("replay", flag.ExitOnError)
	repo := fs.String("repo", "/repo", "repository")
	verif := fs.String("verif", "/verif", "verif dir")
	file := fs.String("file", "", "replay json")
	fs.Parse(args)
	outDir = *verif
	data, err := os.ReadFile(*file)
	if err != nil {
		fmt.Println("ENGINE-ERROR", err)
		os.Exit(3)
	}
	var doc struct {
		Harness string `json:"harness"`
		Assert  struct {
			Kind string `json:"kind"`
		} `json:"assert"`
	}
	json.Unmarshal(data, &doc)
	h := strings.TrimPrefix(doc.Harness, interp.RepoModule)
	h = strings.TrimPrefix(h, "/")
	pkg := "."
	if i := strings.LastIndex(h, "."); i > 0 {
		pkg = h[:i]
	}
	prog, err := interp.Load(*repo, filepath.Join(*verif, "harness"))
	if err != nil {
		fmt.Println("ENGINE-ERROR", err)
		os.Exit(3)
	}
	bin, err := buildReplayBinary(*repo, *verif, prog, pkg, doc.Assert.Kind == "race")
	if err != nil {
		fmt.Println("ENGINE-ERROR", err)
		os.Exit(3)
	}
	out, _ := runReplay(*repo, bin, pkg, *file)
	fmt.Print(out)
	if strings.Contains(out, "VERIF-ASSERT-FAIL") || strings.Contains(out, "VERIF-PANIC") {
		os.Exit(1)
	}
}

// raceReportMatches: some "WARNING: DATA RACE" block of the native output has one access
// whose innermost frames are in fns[0] and the other access in fns[1] (either order).
func raceReportMatches(out string, fns []string) bool {
	if len(fns) != 2 {
		return false
	}
	for _, block := range strings.Split(out, "WARNING: DATA RACE")[1:] {
		if i := strings.Index(block, "=================="); i >= 0 {
			block = block[:i]
		}
		var acc [][]string // innermost frames of every access section
		lines := strings.Split(block, "\n")
		for i := 0; i < len(lines); i++ {
			l := lines[i]
			if !(strings.HasPrefix(l, "Read at ") || strings.HasPrefix(l, "Write at ") || strings.HasPrefix(l, "Previous read at ") || strings.HasPrefix(l, "Previous write at ")) {
				continue
			}
			var frames []string
			for j := i + 1; j < len(lines) && strings.TrimSpace(lines[j]) != "" && len(frames) < 4; j += 2 {
				frames = append(frames, strings.TrimSpace(lines[j]))
			}
			acc = append(acc, frames)
		}
		if len(acc) != 2 {
			continue
		}
		has := func(frames []string, fn string) bool {
			for _, f := range frames {
				if strings.Contains(f, "."+fn) {
					return true
				}
			}
			return false
		}
		if has(acc[0], fns[0]) && has(acc[1], fns[1]) || has(acc[0], fns[1]) && has(acc[1], fns[0]) {
			return true
		}
	}
	return false
}

// raceFuncs extracts the short function names from a race label
// "race: R (*pkg.T).m (file:line) <-> W pkg.f (file:line)".
func raceFuncs(label string) []string {
	var out []string
	for _, part := range strings.Split(strings.TrimPrefix(label, "race: "), " <-> ") {
		f := strings.Fields(part)
		if len(f) < 2 {
			continue
		}
		name := f[1]
		if i := strings.LastIndex(name, "."); i >= 0 {
			name = name[i+1:]
		}
		if i := strings.IndexByte(name, '$'); i >= 0 {
			out = append(out, name[:i]+".func") // closure: the native report says f.funcN
			continue
		}
		out = append(out, name+"(")
	}
	return out
}
