package interp

import (
	"fmt"
	"go/types"
	"os"
	"path/filepath"
	"strings"

	"golang.org/x/tools/go/packages"
	"golang.org/x/tools/go/ssa"
	"golang.org/x/tools/go/ssa/ssautil"
)

const RepoModule = "github.com/ipld/go-storethehash"

// Program is the loaded SSA program (shared read-only between workers).
type Program struct {
	Prog     *ssa.Program
	Pkgs     map[string]*ssa.Package // by import path
	RepoDir  string
	Overlay  map[string][]byte
	RepoFns  []*ssa.Function // functions of repository packages (non-harness files)
	fnFile   map[*ssa.Function]string
	sizes    types.Sizes
	initable map[string]bool
	Initial  []*packages.Package
}

// BuildOverlay maps every file under harnessDir/overlay/<rel> to repoDir/<rel>.
// Files ending in _test.go are skipped for the symbolic load (withTests=false).
func BuildOverlay(harnessDir, repoDir string, withTests bool) (map[string][]byte, map[string]string, error) {
	ov := map[string][]byte{}
	src := map[string]string{}
	root := filepath.Join(harnessDir, "overlay")
	err := filepath.Walk(root, func(p string, info os.FileInfo, err error) error {
		if err != nil {
			return err
		}
		if info.IsDir() || !strings.HasSuffix(p, ".go") {
			return nil
		}
		if !withTests && strings.HasSuffix(p, "_test.go") {
			return nil
		}
		rel, _ := filepath.Rel(root, p)
		data, err := os.ReadFile(p)
		if err != nil {
			return err
		}
		dst := filepath.Join(repoDir, rel)
		ov[dst] = data
		src[dst] = p
		return nil
	})
	return ov, src, err
}

func Load(repoDir, harnessDir string) (*Program, error) {
	ov, _, err := BuildOverlay(harnessDir, repoDir, false)
	if err != nil {
		return nil, err
	}
	cfg := &packages.Config{
		Mode:    packages.LoadAllSyntax,
		Dir:     repoDir,
		Overlay: ov,
		Env:     append(os.Environ(), "GOFLAGS=-mod=mod", "GOPROXY=off", "GOTOOLCHAIN=auto", "GOSUMDB="),
		Tests:   false,
	}
	initial, err := packages.Load(cfg, "./...")
	if err != nil {
		return nil, fmt.Errorf("packages.Load: %w", err)
	}
	var errs []string
	packages.Visit(initial, nil, func(p *packages.Package) {
		for _, e := range p.Errors {
			errs = append(errs, e.Error())
		}
	})
	if len(errs) > 0 {
		if len(errs) > 10 {
			errs = errs[:10]
		}
		return nil, fmt.Errorf("type errors loading %s:\n  %s", repoDir, strings.Join(errs, "\n  "))
	}
	prog, _ := ssautil.AllPackages(initial, ssa.InstantiateGenerics)
	prog.Build()
	p := &Program{Prog: prog, Pkgs: map[string]*ssa.Package{}, RepoDir: repoDir, Overlay: ov, Initial: initial,
		fnFile: map[*ssa.Function]string{}, sizes: types.SizesFor("gc", "amd64")}
	for _, sp := range prog.AllPackages() {
		p.Pkgs[sp.Pkg.Path()] = sp
	}
	// repository functions (for coverage): members + methods + anonymous functions
	for fn := range ssautil.AllFunctions(prog) {
		if fn.Pkg == nil || fn.Synthetic != "" && fn.Parent() == nil {
			continue
		}
		path := fn.Pkg.Pkg.Path()
		if !strings.HasPrefix(path, RepoModule) || strings.Contains(path, "/internal/v") {
			continue
		}
		if fn.Blocks == nil {
			continue
		}
		pos := prog.Fset.Position(fn.Pos())
		base := filepath.Base(pos.Filename)
		if strings.HasPrefix(base, "zz_verif") {
			continue
		}
		p.fnFile[fn] = pos.Filename
		p.RepoFns = append(p.RepoFns, fn)
	}
	return p, nil
}

// FindFunc finds a package-level function "pkgpath.Name".
func (p *Program) FindFunc(pkgPath, name string) *ssa.Function {
	sp := p.Pkgs[pkgPath]
	if sp == nil {
		return nil
	}
	return sp.Func(name)
}
