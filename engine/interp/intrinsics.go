package interp

import (
	"fmt"
	"go/types"
	"math"
	"path/filepath"
	"strings"

	"symgo/term"

	"golang.org/x/tools/go/ssa"
)

var intrinsics = map[string]Intrinsic{}

var noopPrefixes = []string{
	"(*go.uber.org/zap.SugaredLogger).",
	"(*github.com/ipfs/go-log/v2.ZapEventLogger).",
	"fmt.Print", "fmt.Fprint", "log.Print", "(*log.Logger).",
}

func lookupIntrinsic(fn *ssa.Function) Intrinsic {
	name := fn.String()
	if f, ok := intrinsics[name]; ok {
		return f
	}
	for _, p := range noopPrefixes {
		if strings.HasPrefix(name, p) {
			return func(in *Interp, fr *frame, a []Value, c *ssa.CallCommon) Value {
				return in.zeroResults(fn)
			}
		}
	}
	return nil
}

func (in *Interp) isErr(v Value) bool { return v.(Iface).T != nil }

// invokeMethod calls method name on an interface value.
func (in *Interp) invokeMethod(recv Iface, name string, fr *frame, args ...Value) Value {
	if recv.T == nil {
		panic(goPanic{msg: "runtime error: invalid memory address or nil pointer dereference (nil interface)"})
	}
	if nt, ok := recv.T.(*nativeType); ok {
		return in.nativeMethod(nt.name+"."+name, fr, append([]Value{recv.V}, args...), nil)
	}
	ms := in.P.Prog.MethodSets.MethodSet(recv.T)
	for i := 0; i < ms.Len(); i++ {
		sel := ms.At(i)
		if sel.Obj().Name() == name {
			fn := in.P.Prog.MethodValue(sel)
			if fn == nil {
				break
			}
			return in.callFn(fn, append([]Value{recv.V}, args...), nil, fr, nil)
		}
	}
	panic(engineErr("method %s not found on %s", name, recv.T))
}

func hasMethod(in *Interp, t types.Type, name string) bool {
	if nt, ok := t.(*nativeType); ok {
		return nt == ntErr && (name == "Error" || name == "Unwrap")
	}
	ms := in.P.Prog.MethodSets.MethodSet(t)
	for i := 0; i < ms.Len(); i++ {
		if ms.At(i).Obj().Name() == name {
			return true
		}
	}
	return false
}

func isErrorLike(i Iface) bool {
	if i.T == nil {
		return false
	}
	if i.T == ntErr {
		return true
	}
	ms := types.NewMethodSet(i.T)
	for k := 0; k < ms.Len(); k++ {
		if ms.At(k).Obj().Name() == "Error" {
			return true
		}
	}
	return false
}

func (in *Interp) errorString(e Iface) string {
	if e.T == nil {
		return "<nil>"
	}
	defer func() {
		if r := recover(); r != nil {
			if _, ok := r.(goPanic); ok {
				return
			}
			panic(r)
		}
	}()
	// error texts are never data: symbolic operands are printed as placeholders instead
	// of being concretised (which would fork the path)
	save := in.noConcFmt
	in.noConcFmt = true
	defer func() { in.noConcFmt = save }()
	v := in.invokeMethod(e, "Error", nil)
	if s, ok := v.(Str); ok {
		if s.Sym != nil {
			return "<symbolic error text>"
		}
		return s.S
	}
	return "<error>"
}

func (in *Interp) unwrapErr(e Iface) (Iface, bool) {
	if e.T == nil {
		return Iface{}, false
	}
	if e.T == ntErr {
		w := e.V.(Native).P.(*errObj).wrapped
		return w, w.T != nil
	}
	if hasMethod(in, e.T, "Unwrap") {
		r := in.invokeMethod(e, "Unwrap", nil)
		if w, ok := r.(Iface); ok {
			return w, w.T != nil
		}
	}
	return Iface{}, false
}

// nativeMethod dispatches methods of engine model objects.
func (in *Interp) nativeMethod(name string, fr *frame, a []Value, c *ssa.CallCommon) Value {
	switch name {
	case "error.Error":
		return Str{S: a[0].(Native).P.(*errObj).msg}
	case "error.Unwrap":
		return a[0].(Native).P.(*errObj).wrapped
	case "error.Timeout", "error.Temporary":
		return in.M.False
	case "fileInfo.Size":
		return in.intVal(a[0].(Native).P.(*fileInfoObj).size)
	case "fileInfo.Name":
		return Str{S: a[0].(Native).P.(*fileInfoObj).name}
	case "fileInfo.IsDir":
		return in.M.Bool(a[0].(Native).P.(*fileInfoObj).dir)
	case "ctx.Err":
		return in.ctxErr(a[0].(Native).P.(*ctxObj))
	case "ctx.Done":
		return in.ctxDone(a[0].(Native).P.(*ctxObj))
	case "ctx.Value":
		return Iface{}
	case "ctx.Deadline":
		return Tuple{in.timeValue(), in.M.False}
	}
	panic(engineErr("unsupported native method %s", name))
}

// ---- context model ----

type ctxObj struct {
	parent   *ctxObj
	canceled bool
	deadline bool // has a deadline
	expired  bool
	done     *ChanObj
	bg       bool
}

func (in *Interp) ctxIface(c *ctxObj) Iface { return Iface{T: ntCtx, V: Native{c}} }

func (in *Interp) ctxErr(c *ctxObj) Value {
	for x := c; x != nil; x = x.parent {
		if x.canceled {
			return in.globalVal("context", "Canceled")
		}
		if x.expired {
			return in.globalVal("context", "DeadlineExceeded")
		}
	}
	// a deadline may expire at any check
	for x := c; x != nil; x = x.parent {
		if x.deadline && !x.expired && in.Cfg.Params["ctxexpire"] > 0 {
			if in.choose(2, "ctx-expire") == 1 {
				x.expired = true
				return in.globalVal("context", "DeadlineExceeded")
			}
		}
	}
	return Iface{}
}

func (in *Interp) ctxDone(c *ctxObj) Value {
	if c.bg {
		return (*ChanObj)(nil)
	}
	if c.done == nil {
		c.done = in.newChan(0)
		for x := c; x != nil; x = x.parent {
			if x.canceled || x.expired {
				c.done.closed = true
			}
		}
	}
	return c.done
}

func (in *Interp) ctxCancel(c *ctxObj) {
	if c.canceled {
		return
	}
	c.canceled = true
	in.ctxs = append(in.ctxs, c)
	for _, x := range in.ctxs {
		// close done channels of c and descendants
		for y := x; y != nil; y = y.parent {
			if y == c && x.done != nil && !x.done.closed {
				x.done.closed = true
				in.release(x.done.vc)
			}
		}
	}
}

func (in *Interp) ctxFromValue(v Value) *ctxObj {
	i := v.(Iface)
	if i.T == ntCtx {
		return i.V.(Native).P.(*ctxObj)
	}
	// interpreted context implementation supplied by a harness: wrap as opaque parent
	return nil
}

// ---- formatting ----

type fmtErr struct{ s string }

func (e fmtErr) Error() string { return e.s }

func (in *Interp) toNative(v Value, t types.Type, concretise bool) any {
	switch x := v.(type) {
	case *term.T:
		w, signed, _ := typeWidth(t)
		if !x.IsConst() {
			if !concretise {
				return "<sym>"
			}
			x = in.M.BV(in.concretise(x, "fmt-arg"), x.W)
		}
		if w == 0 {
			return x.Val != 0
		}
		if signed {
			return x.SignedVal()
		}
		return x.Val
	case Str:
		if x.Sym != nil {
			if concretise {
				return in.strArg(x)
			}
			return "<symstr>"
		}
		return x.S
	case Float:
		if x.Opaque {
			return math.NaN()
		}
		return x.V
	case Iface:
		if x.T == nil {
			return nil
		}
		if isErrorLike(x) {
			return fmtErr{in.errorString(x)}
		}
		return in.toNative(x.V, x.T, concretise)
	case Slice:
		if et, ok := t.Underlying().(*types.Slice); ok {
			if b, ok := et.Elem().Underlying().(*types.Basic); ok && b.Kind() == types.Uint8 {
				if x.Obj == nil {
					return []byte(nil)
				}
				if bs, ok := in.concreteBytes(x); ok {
					return bs
				}
				return "<symbytes>"
			}
		}
		return fmt.Sprintf("<slice len %d>", x.Len)
	case Ptr:
		if x.Obj == nil {
			return nil
		}
		if isErrorLike(Iface{T: t, V: v}) {
			return fmtErr{in.errorString(Iface{T: t, V: v})}
		}
		return fmt.Sprintf("<ptr %d>", x.Obj.ID)
	case Struct, Array:
		if isErrorLike(Iface{T: t, V: v}) {
			return fmtErr{in.errorString(Iface{T: t, V: v})}
		}
		return fmt.Sprintf("<%s>", t)
	}
	return fmt.Sprintf("<%T>", v)
}

func (in *Interp) fmtArgs(va Value, concretise bool) []any {
	s := va.(Slice)
	out := make([]any, s.Len)
	for i := 0; i < s.Len; i++ {
		e := in.loadSlot(s.Obj, s.Off+i).(Iface)
		if e.T == nil {
			out[i] = nil
			continue
		}
		out[i] = in.toNative(e, nil, concretise)
	}
	return out
}

// ---- encoding/binary helpers ----

func (in *Interp) leLoad(s Slice, n int) *term.T {
	if s.Len < n {
		panic(goPanic{msg: fmt.Sprintf("runtime error: index out of range [%d] with length %d", n-1, s.Len)})
	}
	var r *term.T
	for i := n - 1; i >= 0; i-- {
		b := in.loadSlot(s.Obj, s.Off+i).(*term.T)
		if r == nil {
			r = b
		} else {
			r = in.M.Concat(r, b)
		}
	}
	return r
}

func (in *Interp) leStore(s Slice, n int, v *term.T) {
	if s.Len < n {
		panic(goPanic{msg: fmt.Sprintf("runtime error: index out of range [%d] with length %d", n-1, s.Len)})
	}
	for i := 0; i < n; i++ {
		in.storeSlot(s.Obj, s.Off+i, in.M.Extract(v, uint8(8*i+7), uint8(8*i)))
	}
}

func (in *Interp) beLoad(s Slice, n int) *term.T {
	if s.Len < n {
		panic(goPanic{msg: fmt.Sprintf("runtime error: index out of range [%d] with length %d", n-1, s.Len)})
	}
	var r *term.T
	for i := 0; i < n; i++ {
		b := in.loadSlot(s.Obj, s.Off+i).(*term.T)
		if r == nil {
			r = b
		} else {
			r = in.M.Concat(r, b)
		}
	}
	return r
}

func init() {
	reg := func(name string, f Intrinsic) { intrinsics[name] = f }

	// ---- fmt ----
	reg("fmt.Sprintf", func(in *Interp, fr *frame, a []Value, c *ssa.CallCommon) Value {
		return Str{S: fmt.Sprintf(in.strArg(a[0]), in.fmtArgs(a[1], !in.noConcFmt)...)}
	})
	reg("fmt.Sprint", func(in *Interp, fr *frame, a []Value, c *ssa.CallCommon) Value {
		return Str{S: fmt.Sprint(in.fmtArgs(a[0], true)...)}
	})
	reg("fmt.Sprintln", func(in *Interp, fr *frame, a []Value, c *ssa.CallCommon) Value {
		return Str{S: fmt.Sprintln(in.fmtArgs(a[0], true)...)}
	})
	reg("fmt.Errorf", func(in *Interp, fr *frame, a []Value, c *ssa.CallCommon) Value {
		format := in.strArg(a[0])
		args := in.fmtArgs(a[1], false)
		// find %w operand
		var wrapped Iface
		s := a[1].(Slice)
		vi := 0
		for i := 0; i+1 < len(format); i++ {
			if format[i] != '%' {
				continue
			}
			j := i + 1
			for j < len(format) && strings.IndexByte("+-# 0123456789.", format[j]) >= 0 {
				j++
			}
			if j >= len(format) {
				break
			}
			if format[j] == '%' {
				i = j
				continue
			}
			if format[j] == 'w' && vi < s.Len {
				if e, ok := in.loadSlot(s.Obj, s.Off+vi).(Iface); ok && wrapped.T == nil {
					wrapped = e
				}
			}
			vi++
			i = j
		}
		msg := fmt.Sprintf(strings.ReplaceAll(format, "%w", "%v"), args...)
		return in.newErr(msg, wrapped, "other")
	})

	// ---- errors ----
	reg("errors.Is", func(in *Interp, fr *frame, a []Value, c *ssa.CallCommon) Value {
		e, target := a[0].(Iface), a[1].(Iface)
		for d := 0; d < 32 && e.T != nil; d++ {
			if in.equal(e, target, nil).IsTrue() {
				return in.M.True
			}
			if _, isNat := e.T.(*nativeType); !isNat && hasMethod(in, e.T, "Is") {
				r := in.invokeMethod(e, "Is", fr, target).(*term.T)
				if in.branch(r) {
					return in.M.True
				}
			}
			u, ok := in.unwrapErr(e)
			if !ok {
				break
			}
			e = u
		}
		return in.M.False
	})
	reg("errors.Unwrap", func(in *Interp, fr *frame, a []Value, c *ssa.CallCommon) Value {
		u, _ := in.unwrapErr(a[0].(Iface))
		return u
	})
	reg("errors.As", func(in *Interp, fr *frame, a []Value, c *ssa.CallCommon) Value {
		e := a[0].(Iface)
		tgt := a[1].(Iface)
		pt, ok := tgt.T.(*types.Pointer)
		if !ok {
			panic(goPanic{msg: "errors: target must be a non-nil pointer"})
		}
		want := pt.Elem()
		for d := 0; d < 32 && e.T != nil; d++ {
			if _, isNat := e.T.(*nativeType); !isNat {
				if types.IsInterface(want) {
					if types.Implements(e.T, want.Underlying().(*types.Interface)) {
						in.store(tgt.V.(Ptr), want, e)
						return in.M.True
					}
				} else if types.Identical(e.T, want) {
					in.store(tgt.V.(Ptr), want, e.V)
					return in.M.True
				}
			}
			u, ok := in.unwrapErr(e)
			if !ok {
				break
			}
			e = u
		}
		return in.M.False
	})

	// ---- path/filepath ----
	reg("path/filepath.Clean", func(in *Interp, fr *frame, a []Value, c *ssa.CallCommon) Value {
		return Str{S: filepath.Clean(in.strArg(a[0]))}
	})
	reg("path/filepath.Dir", func(in *Interp, fr *frame, a []Value, c *ssa.CallCommon) Value {
		return Str{S: filepath.Dir(in.strArg(a[0]))}
	})
	reg("path/filepath.Base", func(in *Interp, fr *frame, a []Value, c *ssa.CallCommon) Value {
		return Str{S: filepath.Base(in.strArg(a[0]))}
	})
	reg("path/filepath.Ext", func(in *Interp, fr *frame, a []Value, c *ssa.CallCommon) Value {
		return Str{S: filepath.Ext(in.strArg(a[0]))}
	})
	reg("path/filepath.Join", func(in *Interp, fr *frame, a []Value, c *ssa.CallCommon) Value {
		s := a[0].(Slice)
		parts := make([]string, s.Len)
		for i := range parts {
			parts[i] = in.strArg(in.loadSlot(s.Obj, s.Off+i))
		}
		return Str{S: filepath.Join(parts...)}
	})
	reg("path/filepath.IsAbs", func(in *Interp, fr *frame, a []Value, c *ssa.CallCommon) Value {
		return in.M.Bool(filepath.IsAbs(in.strArg(a[0])))
	})

	// ---- bytes ----
	reg("bytes.Equal", func(in *Interp, fr *frame, a []Value, c *ssa.CallCommon) Value {
		x, y := a[0].(Slice), a[1].(Slice)
		if x.Len != y.Len {
			return in.M.False
		}
		return in.bytesEqual(in.sliceTermsRace(x), in.sliceTermsRace(y))
	})
	reg("bytes.Compare", func(in *Interp, fr *frame, a []Value, c *ssa.CallCommon) Value {
		return in.compareBytes(in.sliceTermsRace(a[0].(Slice)), in.sliceTermsRace(a[1].(Slice)))
	})
	reg("bytes.HasPrefix", func(in *Interp, fr *frame, a []Value, c *ssa.CallCommon) Value {
		x, y := a[0].(Slice), a[1].(Slice)
		if x.Len < y.Len {
			return in.M.False
		}
		return in.bytesEqual(in.sliceTermsRace(x)[:y.Len], in.sliceTermsRace(y))
	})
	reg("internal/bytealg.IndexByte", func(in *Interp, fr *frame, a []Value, c *ssa.CallCommon) Value {
		bs, ok := in.concreteBytes(a[0].(Slice))
		b := a[1].(*term.T)
		if !ok || !b.IsConst() {
			panic(engineErr("bytealg.IndexByte on symbolic data"))
		}
		for i, x := range bs {
			if x == byte(b.Val) {
				return in.intVal(i)
			}
		}
		return in.intVal(-1)
	})
	reg("internal/bytealg.IndexByteString", func(in *Interp, fr *frame, a []Value, c *ssa.CallCommon) Value {
		s := in.strArg(a[0])
		b := a[1].(*term.T)
		if !b.IsConst() {
			panic(engineErr("bytealg.IndexByteString on symbolic data"))
		}
		return in.intVal(strings.IndexByte(s, byte(b.Val)))
	})
	reg("internal/bytealg.CountString", func(in *Interp, fr *frame, a []Value, c *ssa.CallCommon) Value {
		s := in.strArg(a[0])
		b := a[1].(*term.T)
		return in.intVal(strings.Count(s, string([]byte{byte(b.Val)})))
	})
	reg("internal/bytealg.IndexString", func(in *Interp, fr *frame, a []Value, c *ssa.CallCommon) Value {
		return in.intVal(strings.Index(in.strArg(a[0]), in.strArg(a[1])))
	})
	reg("strings.Index", intrinsics["internal/bytealg.IndexString"])
	reg("strings.IndexByte", intrinsics["internal/bytealg.IndexByteString"])

	// ---- encoding/binary ----
	le := "(encoding/binary.littleEndian)."
	be := "(encoding/binary.bigEndian)."
	for _, n := range []int{2, 4, 8} {
		n := n
		bits := fmt.Sprint(n * 8)
		reg(le+"Uint"+bits, func(in *Interp, fr *frame, a []Value, c *ssa.CallCommon) Value {
			return in.leLoad(a[1].(Slice), n)
		})
		reg(le+"PutUint"+bits, func(in *Interp, fr *frame, a []Value, c *ssa.CallCommon) Value {
			in.leStore(a[1].(Slice), n, a[2].(*term.T))
			return nil
		})
		reg(be+"Uint"+bits, func(in *Interp, fr *frame, a []Value, c *ssa.CallCommon) Value {
			return in.beLoad(a[1].(Slice), n)
		})
	}

	// ---- sync ----
	reg("(*sync.Mutex).Lock", func(in *Interp, fr *frame, a []Value, c *ssa.CallCommon) Value {
		in.mutexLock(a[0].(Ptr))
		return nil
	})
	reg("(*sync.Mutex).Unlock", func(in *Interp, fr *frame, a []Value, c *ssa.CallCommon) Value {
		in.mutexUnlock(a[0].(Ptr))
		return nil
	})
	reg("(*sync.Mutex).TryLock", func(in *Interp, fr *frame, a []Value, c *ssa.CallCommon) Value {
		return in.M.Bool(in.mutexTryLock(a[0].(Ptr)))
	})
	reg("(*sync.RWMutex).Lock", intrinsics["(*sync.Mutex).Lock"])
	reg("(*sync.RWMutex).Unlock", intrinsics["(*sync.Mutex).Unlock"])
	reg("(*sync.RWMutex).RLock", func(in *Interp, fr *frame, a []Value, c *ssa.CallCommon) Value {
		in.mutexRLock(a[0].(Ptr))
		return nil
	})
	reg("(*sync.RWMutex).RUnlock", func(in *Interp, fr *frame, a []Value, c *ssa.CallCommon) Value {
		in.mutexRUnlock(a[0].(Ptr))
		return nil
	})
	reg("(*sync.Once).Do", func(in *Interp, fr *frame, a []Value, c *ssa.CallCommon) Value {
		in.onceDo(a[0].(Ptr), a[1], fr, c)
		return nil
	})
	reg("(*sync.WaitGroup).Add", func(in *Interp, fr *frame, a []Value, c *ssa.CallCommon) Value {
		w := in.wg(a[0].(Ptr))
		w.n += in.concInt(a[1].(*term.T), "wg-add")
		if w.n < 0 {
			panic(goPanic{msg: "sync: negative WaitGroup counter"})
		}
		in.release(w.vc)
		in.releaseW(w)
		return nil
	})
	reg("(*sync.WaitGroup).Done", func(in *Interp, fr *frame, a []Value, c *ssa.CallCommon) Value {
		w := in.wg(a[0].(Ptr))
		in.visible("wg-done")
		w.n--
		if w.n < 0 {
			panic(goPanic{msg: "sync: negative WaitGroup counter"})
		}
		in.release(w.vc)
		in.releaseW(w)
		return nil
	})
	reg("(*sync.WaitGroup).Wait", func(in *Interp, fr *frame, a []Value, c *ssa.CallCommon) Value {
		w := in.wg(a[0].(Ptr))
		in.visible("wg-wait")
		in.blockUntil(func() bool { return w.n == 0 }, "WaitGroup.Wait")
		in.acquire(w.vc)
		in.acquireW(w)
		return nil
	})

	// ---- time ----
	reg("time.Now", func(in *Interp, fr *frame, a []Value, c *ssa.CallCommon) Value {
		return in.timeValue()
	})
	reg("time.Since", func(in *Interp, fr *frame, a []Value, c *ssa.CallCommon) Value {
		now := in.nextClock()
		return in.M.Sub(now, a[0].(Struct)[1].(*term.T))
	})
	reg("(time.Time).Sub", func(in *Interp, fr *frame, a []Value, c *ssa.CallCommon) Value {
		return in.M.Sub(a[0].(Struct)[1].(*term.T), a[1].(Struct)[1].(*term.T))
	})
	reg("(time.Time).IsZero", func(in *Interp, fr *frame, a []Value, c *ssa.CallCommon) Value {
		return in.M.Eq(a[0].(Struct)[1].(*term.T), in.M.BV(0, 64))
	})
	reg("(time.Duration).Seconds", func(in *Interp, fr *frame, a []Value, c *ssa.CallCommon) Value {
		d := a[0].(*term.T)
		if d.IsConst() {
			return Float{V: float64(d.SignedVal()) / 1e9}
		}
		return in.opaqueFloat()
	})
	reg("(time.Duration).String", func(in *Interp, fr *frame, a []Value, c *ssa.CallCommon) Value {
		return Str{S: "<duration>"}
	})
	reg("time.Sleep", func(in *Interp, fr *frame, a []Value, c *ssa.CallCommon) Value {
		in.visible("sleep")
		return nil
	})
	mkTimer := func(ticker bool) Intrinsic {
		return func(in *Interp, fr *frame, a []Value, c *ssa.CallCommon) Value {
			tn := "Timer"
			if ticker {
				tn = "Ticker"
			}
			tt := in.P.Pkgs["time"].Type(tn).Type()
			o := in.newObject(tt)
			ch := in.newChan(1)
			tm := &timerObj{ch: ch, armed: true, ticker: ticker}
			ch.timer = tm
			o.Native = tm
			in.timers = append(in.timers, tm)
			st := tt.Underlying().(*types.Struct)
			for i := 0; i < st.NumFields(); i++ {
				if st.Field(i).Name() == "C" {
					in.setSlot(o, in.lay(tt).fields[i], ch)
				}
			}
			return Ptr{o, 0}
		}
	}
	reg("time.NewTimer", mkTimer(false))
	reg("time.NewTicker", mkTimer(true))
	reg("(*time.Timer).Stop", func(in *Interp, fr *frame, a []Value, c *ssa.CallCommon) Value {
		tm := a[0].(Ptr).Obj.Native.(*timerObj)
		was := tm.armed
		tm.armed = false
		return in.M.Bool(was)
	})
	reg("(*time.Timer).Reset", func(in *Interp, fr *frame, a []Value, c *ssa.CallCommon) Value {
		tm := a[0].(Ptr).Obj.Native.(*timerObj)
		was := tm.armed
		tm.armed = true
		return in.M.Bool(was)
	})
	reg("(*time.Ticker).Stop", func(in *Interp, fr *frame, a []Value, c *ssa.CallCommon) Value {
		tm := a[0].(Ptr).Obj.Native.(*timerObj)
		tm.armed = false
		return nil
	})
	reg("(*time.Ticker).Reset", func(in *Interp, fr *frame, a []Value, c *ssa.CallCommon) Value {
		tm := a[0].(Ptr).Obj.Native.(*timerObj)
		tm.armed = true
		return nil
	})

	// ---- math ----
	reg("math.Ceil", func(in *Interp, fr *frame, a []Value, c *ssa.CallCommon) Value {
		f := a[0].(Float)
		if f.Opaque {
			return in.opaqueFloat()
		}
		return Float{V: math.Ceil(f.V)}
	})
	reg("math.Floor", func(in *Interp, fr *frame, a []Value, c *ssa.CallCommon) Value {
		f := a[0].(Float)
		if f.Opaque {
			return in.opaqueFloat()
		}
		return Float{V: math.Floor(f.V)}
	})

	// ---- context ----
	reg("context.Background", func(in *Interp, fr *frame, a []Value, c *ssa.CallCommon) Value {
		return in.ctxIface(&ctxObj{bg: true})
	})
	reg("context.TODO", intrinsics["context.Background"])
	reg("context.WithCancel", func(in *Interp, fr *frame, a []Value, c *ssa.CallCommon) Value {
		parent := in.ctxFromValue(a[0])
		if parent == nil {
			panic(engineErr("context.WithCancel on a non-engine context"))
		}
		ch := &ctxObj{parent: parent}
		in.ctxs = append(in.ctxs, ch)
		return Tuple{in.ctxIface(ch), &Closure{Intr: "ctx.cancel", Env: []Value{Native{ch}}}}
	})
	reg("context.WithTimeout", func(in *Interp, fr *frame, a []Value, c *ssa.CallCommon) Value {
		parent := in.ctxFromValue(a[0])
		if parent == nil {
			panic(engineErr("context.WithTimeout on a non-engine context"))
		}
		ch := &ctxObj{parent: parent, deadline: true}
		in.ctxs = append(in.ctxs, ch)
		return Tuple{in.ctxIface(ch), &Closure{Intr: "ctx.cancel", Env: []Value{Native{ch}}}}
	})
	reg("ctx.cancel", func(in *Interp, fr *frame, a []Value, c *ssa.CallCommon) Value {
		in.ctxCancel(a[0].(Native).P.(*ctxObj))
		return nil
	})

	// ---- sort ----
	reg("sort.Slice", func(in *Interp, fr *frame, a []Value, c *ssa.CallCommon) Value {
		s := a[0].(Iface).V.(Slice)
		less := a[1]
		es := s.ES
		swap := func(i, j int) {
			for k := 0; k < es; k++ {
				x := in.loadSlot(s.Obj, s.Off+i*es+k)
				y := in.loadSlot(s.Obj, s.Off+j*es+k)
				in.storeSlot(s.Obj, s.Off+i*es+k, y)
				in.storeSlot(s.Obj, s.Off+j*es+k, x)
			}
		}
		// insertion sort (stable; any correct sort is a valid model of sort.Slice
		// for the comparison outcomes the path fixes)
		for i := 1; i < s.Len; i++ {
			for j := i; j > 0; j-- {
				r := in.callValue(less, []Value{in.intVal(j), in.intVal(j - 1)}, fr, c).(*term.T)
				if !in.branch(r) {
					break
				}
				swap(j, j-1)
			}
		}
		return nil
	})

	// ---- logging ----
	reg("github.com/ipfs/go-log/v2.Logger", func(in *Interp, fr *frame, a []Value, c *ssa.CallCommon) Value {
		t := in.P.Pkgs["github.com/ipfs/go-log/v2"].Type("ZapEventLogger").Type()
		o := in.newObject(t)
		return Ptr{o, 0}
	})

	// ---- io copy helpers ----
	reg("(*os.File).ReadFrom", func(in *Interp, fr *frame, a []Value, c *ssa.CallCommon) Value {
		f, e := in.fileOf(a[0], "readfrom")
		if f == nil {
			return Tuple{in.intVal(0), e}
		}
		r := a[1].(Iface)
		total := 0
		for {
			buf := in.newByteSlice(make([]*term.T, 0))
			o := in.newArrayObject(types.Typ[types.Uint8], 4096)
			buf = Slice{Obj: o, Len: 4096, Cap: 4096, ES: 1}
			res := in.invokeMethod(r, "Read", fr, buf).(Tuple)
			n := in.concInt(res[0].(*term.T), "read-n")
			if n > 0 {
				_, we := in.fileWrite(f, in.sliceTermsRace(Slice{Obj: o, Len: n, Cap: 4096, ES: 1}), 0, false)
				if we.T != nil {
					return Tuple{in.intVal(total), we}
				}
				total += n
			}
			if re := res[1].(Iface); re.T != nil {
				if in.equal(re, in.ioEOF(), nil).IsTrue() {
					return Tuple{in.intVal(total), Iface{}}
				}
				return Tuple{in.intVal(total), re}
			}
		}
	})
	reg("(*os.File).WriteTo", func(in *Interp, fr *frame, a []Value, c *ssa.CallCommon) Value {
		f, e := in.fileOf(a[0], "writeto")
		if f == nil {
			return Tuple{in.intVal(0), e}
		}
		w := a[1].(Iface)
		total := 0
		for {
			data, re := in.fileRead(f, 4096, 0, false)
			if re.T != nil {
				return Tuple{in.intVal(total), re}
			}
			if len(data) == 0 {
				return Tuple{in.intVal(total), Iface{}}
			}
			res := in.invokeMethod(w, "Write", fr, in.newByteSlice(data)).(Tuple)
			total += in.concInt(res[0].(*term.T), "write-n")
			if we := res[1].(Iface); we.T != nil {
				return Tuple{in.intVal(total), we}
			}
		}
	})

	// ---- json (flat integer structs only) ----
	reg("encoding/json.Marshal", func(in *Interp, fr *frame, a []Value, c *ssa.CallCommon) Value {
		v := a[0].(Iface)
		var st *types.Struct
		var base Ptr
		var sv Struct
		var nt types.Type
		if pt, ok := v.T.(*types.Pointer); ok {
			nt = pt.Elem()
			st, _ = nt.Underlying().(*types.Struct)
			base = v.V.(Ptr)
			sv = in.load(base, nt).(Struct)
		} else if s, ok := v.T.Underlying().(*types.Struct); ok {
			st = s
			sv = v.V.(Struct)
		}
		if st == nil {
			panic(engineErr("json.Marshal of %s is not modelled", v.T))
		}
		out := []*term.T{in.M.BV('{', 8)}
		for i := 0; i < st.NumFields(); i++ {
			w, signed, ok := typeWidth(st.Field(i).Type())
			if !ok || w == 0 {
				panic(engineErr("json.Marshal: field %s not modelled", st.Field(i).Name()))
			}
			t := in.M.Resize(sv[i].(*term.T), 64, signed)
			for k := 0; k < 8; k++ {
				out = append(out, in.M.Extract(t, uint8(8*k+7), uint8(8*k)))
			}
		}
		out = append(out, in.M.BV('}', 8))
		return Tuple{in.newByteSlice(out), Iface{}}
	})
	reg("encoding/json.Unmarshal", func(in *Interp, fr *frame, a []Value, c *ssa.CallCommon) Value {
		data := in.sliceTermsRace(a[0].(Slice))
		v := a[1].(Iface)
		pt, ok := v.T.(*types.Pointer)
		if !ok {
			panic(engineErr("json.Unmarshal target %s", v.T))
		}
		st, ok := pt.Elem().Underlying().(*types.Struct)
		if !ok {
			panic(engineErr("json.Unmarshal target %s", v.T))
		}
		n := st.NumFields()
		bad := func(msg string) Value { return in.newErr(msg, Iface{}, "json") }
		if len(data) == 0 {
			return bad("unexpected end of JSON input")
		}
		if len(data) != 2+8*n {
			// other struct's encoding or torn: syntax error / short
			if len(data) < 2+8*n {
				return bad("unexpected end of JSON input")
			}
			return bad("invalid character after top-level value")
		}
		first := data[0]
		if !first.IsConst() || first.Val != '{' || !data[len(data)-1].IsConst() || data[len(data)-1].Val != '}' {
			return bad("invalid character looking for beginning of value")
		}
		base := v.V.(Ptr)
		l := in.lay(pt.Elem())
		for i := 0; i < n; i++ {
			w, _, _ := typeWidth(st.Field(i).Type())
			var t *term.T
			for k := 7; k >= 0; k-- {
				b := data[1+8*i+k]
				if t == nil {
					t = b
				} else {
					t = in.M.Concat(t, b)
				}
			}
			in.store(Ptr{base.Obj, base.Off + l.fields[i]}, st.Field(i).Type(), in.M.Extract(t, w-1, 0))
		}
		return Iface{}
	})
}

func init() {
	reg := func(name string, f Intrinsic) { intrinsics[name] = f }

	reg("internal/abi.NoEscape", func(in *Interp, fr *frame, a []Value, c *ssa.CallCommon) Value { return a[0] })
	reg("(*strings.Builder).String", func(in *Interp, fr *frame, a []Value, c *ssa.CallCommon) Value {
		p := a[0].(Ptr)
		bt := in.P.Pkgs["strings"].Type("Builder").Type()
		st := bt.Underlying().(*types.Struct)
		for i := 0; i < st.NumFields(); i++ {
			if st.Field(i).Name() == "buf" {
				s := in.load(Ptr{p.Obj, p.Off + in.lay(bt).fields[i]}, st.Field(i).Type()).(Slice)
				if s.Obj == nil {
					return Str{}
				}
				return in.strFromTerms(in.sliceTermsRace(s))
			}
		}
		panic(engineErr("strings.Builder layout"))
	})
	reg("unsafe.String", func(in *Interp, fr *frame, a []Value, c *ssa.CallCommon) Value {
		panic(engineErr("unsafe.String"))
	})

	// multihash.Sum: identity is exact, every other hash is an uninterpreted function.
	reg("github.com/multiformats/go-multihash.Sum", func(in *Interp, fr *frame, a []Value, c *ssa.CallCommon) Value {
		data := a[0].(Slice)
		code := in.concretise(a[1].(*term.T), "mh-code")
		length := in.concInt(a[2].(*term.T), "mh-length")
		var terms []*term.T
		if data.Obj != nil {
			terms = in.sliceTermsRace(data)
		}
		var digest []*term.T
		if code == 0 {
			if length >= 0 && length != len(terms) {
				return Tuple{Slice{ES: 1}, in.newErr("the length of the identity hash must be equal to the length of the data", Iface{}, "other")}
			}
			digest = terms
		} else {
			n := length
			if n <= 0 {
				n = 32
			}
			digest = in.hashUF(code, n, terms)
		}
		// unsigned varints for code and digest length
		var out []*term.T
		for _, v := range []uint64{code, uint64(len(digest))} {
			for v >= 0x80 {
				out = append(out, in.M.BV(v&0x7f|0x80, 8))
				v >>= 7
			}
			out = append(out, in.M.BV(v, 8))
		}
		out = append(out, digest...)
		return Tuple{in.newByteSlice(out), Iface{}}
	})
}

func init() {
	intrinsics["internal/bytealg.MakeNoZero"] = func(in *Interp, fr *frame, a []Value, c *ssa.CallCommon) Value {
		n := in.concInt(a[0].(*term.T), "makenozero")
		o := in.newArrayObject(types.Typ[types.Uint8], n)
		return Slice{Obj: o, Len: n, Cap: n, ES: 1}
	}
}
