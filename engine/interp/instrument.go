package interp

import (
	"bytes"
	"fmt"
	"go/ast"
	"go/printer"
	"go/token"
	"go/types"
	"os"
	"path/filepath"
	"strings"

	"golang.org/x/tools/go/ast/astutil"
	"golang.org/x/tools/go/packages"
)

var vfsFuncs = map[string]bool{"Create": true, "OpenFile": true, "WriteFile": true, "Remove": true, "RemoveAll": true,
	"Rename": true, "Truncate": true, "MkdirAll": true, "Mkdir": true, "MkdirTemp": true,
	"Open": true, "Stat": true, "Lstat": true, "ReadFile": true}

var vfsMethods = map[string]string{"Write": "FileWrite", "WriteAt": "FileWriteAt", "WriteString": "FileWriteString", "Truncate": "FileTruncate",
	"Read": "FileRead", "ReadAt": "FileReadAt", "Close": "FileClose", "Stat": "FileStat"}

func isOSFilePtr(t types.Type) bool {
	p, ok := t.(*types.Pointer)
	if !ok {
		return false
	}
	n, ok := p.Elem().(*types.Named)
	return ok && n.Obj().Name() == "File" && n.Obj().Pkg() != nil && n.Obj().Pkg().Path() == "os"
}

func hasMethodNamed(t types.Type, name string) bool {
	it, ok := t.Underlying().(*types.Interface)
	if !ok {
		return false
	}
	for i := 0; i < it.NumMethods(); i++ {
		if it.Method(i).Name() == name {
			return true
		}
	}
	return false
}

func hasWriteMethod(t types.Type) bool { return hasMethodNamed(t, "Write") }

// InstrumentVFS rewrites the repository's non-test, non-harness sources so that every
// mutating file-system call goes through internal/vrt/vfs. Rewritten copies are written
// to genDir; the returned map (original path -> rewritten path) goes into the overlay.
func InstrumentVFS(pkgs []*packages.Package, repoDir, genDir string) (map[string]string, error) {
	out := map[string]string{}
	vfsPath := RepoModule + "/internal/vrt/vfs"
	var firstErr error
	packages.Visit(pkgs, nil, func(p *packages.Package) {
		if !strings.HasPrefix(p.PkgPath, RepoModule) || strings.Contains(p.PkgPath, "/internal/vrt") {
			return
		}
		for i, file := range p.Syntax {
			name := p.CompiledGoFiles[i]
			base := filepath.Base(name)
			if strings.HasSuffix(base, "_test.go") || !strings.HasPrefix(name, repoDir) {
				continue
			}
			isHarness := strings.HasPrefix(base, "zz_verif")
			changed := false
			info := p.TypesInfo
			schedChanged := instrumentSched(p.Fset, file, info)
			if isHarness && !schedChanged {
				continue
			}
			astutil.Apply(file, func(c *astutil.Cursor) bool {
				if isHarness {
					return false
				}
				call, ok := c.Node().(*ast.CallExpr)
				if !ok {
					return true
				}
				// wrap *os.File arguments converted to an io.Writer-like interface
				if sig, ok := info.TypeOf(call.Fun).(*types.Signature); ok {
					for ai, arg := range call.Args {
						at := info.TypeOf(arg)
						if at == nil || !isOSFilePtr(at) {
							continue
						}
						var pt types.Type
						np := sig.Params().Len()
						switch {
						case sig.Variadic() && ai >= np-1:
							pt = sig.Params().At(np - 1).Type().(*types.Slice).Elem()
						case ai < np:
							pt = sig.Params().At(ai).Type()
						}
						if pt != nil && hasWriteMethod(pt) {
							call.Args[ai] = &ast.CallExpr{Fun: &ast.SelectorExpr{X: ast.NewIdent("vfs"), Sel: ast.NewIdent("W")}, Args: []ast.Expr{arg}}
							changed = true
						} else if pt != nil && hasMethodNamed(pt, "Read") {
							call.Args[ai] = &ast.CallExpr{Fun: &ast.SelectorExpr{X: ast.NewIdent("vfs"), Sel: ast.NewIdent("R")}, Args: []ast.Expr{arg}}
							changed = true
						}
					}
				}
				sel, ok := call.Fun.(*ast.SelectorExpr)
				if !ok {
					return true
				}
				// os.X(...) -> vfs.X(...)
				if id, ok := sel.X.(*ast.Ident); ok {
					if pn, ok := info.Uses[id].(*types.PkgName); ok && pn.Imported().Path() == "os" && vfsFuncs[sel.Sel.Name] {
						sel.X = ast.NewIdent("vfs")
						changed = true
						return true
					}
				}
				// f.Write(...) on *os.File -> vfs.FileWrite(f, ...)
				if fnName, ok := vfsMethods[sel.Sel.Name]; ok {
					if rt := info.TypeOf(sel.X); rt != nil && isOSFilePtr(rt) {
						call.Fun = &ast.SelectorExpr{X: ast.NewIdent("vfs"), Sel: ast.NewIdent(fnName)}
						call.Args = append([]ast.Expr{sel.X}, call.Args...)
						changed = true
					}
				}
				return true
			}, nil)
			if !changed && !schedChanged {
				continue
			}
			if changed {
				astutil.AddImport(p.Fset, file, vfsPath)
			}
			if schedChanged {
				astutil.AddImport(p.Fset, file, RepoModule+"/internal/vrt/vsched")
			}
			// keep the os import used
			usesOS := false
			for _, imp := range file.Imports {
				if imp.Path.Value == `"os"` {
					usesOS = true
				}
			}
			var buf bytes.Buffer
			if err := printer.Fprint(&buf, p.Fset, file); err != nil {
				if firstErr == nil {
					firstErr = err
				}
				continue
			}
			if usesOS {
				buf.WriteString("\nvar _ = os.Getpid\n")
			}
			for _, imp := range file.Imports {
				if imp.Path.Value == `"time"` && imp.Name == nil {
					buf.WriteString("\nvar _ = time.Now\n")
				}
			}
			rel, _ := filepath.Rel(repoDir, name)
			dst := filepath.Join(genDir, strings.ReplaceAll(rel, "/", "__"))
			if err := os.MkdirAll(genDir, 0o755); err != nil && firstErr == nil {
				firstErr = err
			}
			if err := os.WriteFile(dst, buf.Bytes(), 0o644); err != nil && firstErr == nil {
				firstErr = err
			}
			out[name] = dst
		}
	})
	if firstErr != nil {
		return nil, fmt.Errorf("instrument: %w", firstErr)
	}
	return out, nil
}

var _ = token.NoPos

// ---- scheduling points (native schedule replay) ----

func isSyncType(t types.Type, names ...string) bool {
	if p, ok := t.(*types.Pointer); ok {
		t = p.Elem()
	}
	n, ok := t.(*types.Named)
	if !ok || n.Obj().Pkg() == nil || n.Obj().Pkg().Path() != "sync" {
		return false
	}
	for _, x := range names {
		if n.Obj().Name() == x {
			return true
		}
	}
	return false
}

func pointCall(kind, pos string) ast.Stmt {
	return &ast.ExprStmt{X: &ast.CallExpr{
		Fun:  &ast.SelectorExpr{X: ast.NewIdent("vsched"), Sel: ast.NewIdent("Point")},
		Args: []ast.Expr{&ast.BasicLit{Kind: token.STRING, Value: fmt.Sprintf("%q", kind)}, &ast.BasicLit{Kind: token.STRING, Value: fmt.Sprintf("%q", pos)}},
	}}
}

// syncKind classifies a statement as a visible synchronisation operation.
func syncKind(st ast.Stmt, info *types.Info) string {
	isRecv := func(e ast.Expr) bool {
		u, ok := e.(*ast.UnaryExpr)
		return ok && u.Op == token.ARROW
	}
	switch s := st.(type) {
	case *ast.SelectStmt:
		return "select"
	case *ast.SendStmt:
		return "send"
	case *ast.AssignStmt:
		if len(s.Rhs) == 1 && isRecv(s.Rhs[0]) {
			return "recv"
		}
	case *ast.ExprStmt:
		if isRecv(s.X) {
			return "recv"
		}
		call, ok := s.X.(*ast.CallExpr)
		if !ok {
			return ""
		}
		if id, ok := call.Fun.(*ast.Ident); ok && id.Name == "close" {
			if _, isBuiltin := info.Uses[id].(*types.Builtin); isBuiltin {
				return "close"
			}
		}
		sel, ok := call.Fun.(*ast.SelectorExpr)
		if !ok {
			return ""
		}
		rt := info.TypeOf(sel.X)
		if rt == nil {
			return ""
		}
		switch sel.Sel.Name {
		case "Lock":
			if isSyncType(rt, "Mutex", "RWMutex") {
				return "lock"
			}
		case "RLock":
			if isSyncType(rt, "RWMutex") {
				return "rlock"
			}
		case "TryLock":
			if isSyncType(rt, "Mutex", "RWMutex") {
				return "trylock"
			}
		case "Do":
			if isSyncType(rt, "Once") {
				return "once"
			}
		case "Done":
			if isSyncType(rt, "WaitGroup") {
				return "wg-done"
			}
		case "Wait":
			if isSyncType(rt, "WaitGroup") {
				return "wg-wait"
			}
		}
	}
	return ""
}

// instrumentSched inserts scheduling points into one file; returns true if it changed.
func instrumentSched(fset *token.FileSet, file *ast.File, info *types.Info) bool {
	changed := false
	done := map[ast.Stmt]bool{}
	posOf := func(n ast.Node) string {
		p := fset.Position(n.Pos())
		return fmt.Sprintf("%s:%d", filepath.Base(p.Filename), p.Line)
	}
	astutil.Apply(file, func(c *astutil.Cursor) bool {
		// virtual timers
		if call, ok := c.Node().(*ast.CallExpr); ok {
			if sel, ok := call.Fun.(*ast.SelectorExpr); ok {
				if id, ok := sel.X.(*ast.Ident); ok {
					if pn, ok := info.Uses[id].(*types.PkgName); ok && pn.Imported().Path() == "time" && (sel.Sel.Name == "NewTimer" || sel.Sel.Name == "NewTicker") {
						sel.X = ast.NewIdent("vsched")
						changed = true
					}
				}
			}
			return true
		}
		st, ok := c.Node().(ast.Stmt)
		if !ok {
			return true
		}
		if _, isComm := c.Parent().(*ast.CommClause); isComm && c.Name() == "Comm" {
			return false // the communication of a select case belongs to the select
		}
		var repl ast.Stmt
		var before ast.Stmt
		if g, ok := st.(*ast.GoStmt); ok {
			// { __f := fun; __a0 := arg0; ...; vsched.Go(pos, func() { __f(__a0, ...) }) }
			blk := &ast.BlockStmt{}
			var lhs, rhs []ast.Expr
			lhs = append(lhs, ast.NewIdent("__vf"))
			rhs = append(rhs, g.Call.Fun)
			var args []ast.Expr
			for i, a := range g.Call.Args {
				name := fmt.Sprintf("__va%d", i)
				lhs = append(lhs, ast.NewIdent(name))
				rhs = append(rhs, a)
				args = append(args, ast.NewIdent(name))
			}
			blk.List = append(blk.List, &ast.AssignStmt{Lhs: lhs, Tok: token.DEFINE, Rhs: rhs})
			inner := &ast.CallExpr{Fun: ast.NewIdent("__vf"), Args: args}
			if g.Call.Ellipsis.IsValid() {
				inner.Ellipsis = 1
			}
			blk.List = append(blk.List, &ast.ExprStmt{X: &ast.CallExpr{
				Fun: &ast.SelectorExpr{X: ast.NewIdent("vsched"), Sel: ast.NewIdent("Go")},
				Args: []ast.Expr{&ast.BasicLit{Kind: token.STRING, Value: fmt.Sprintf("%q", posOf(st))},
					&ast.FuncLit{Type: &ast.FuncType{Params: &ast.FieldList{}}, Body: &ast.BlockStmt{List: []ast.Stmt{&ast.ExprStmt{X: inner}}}}},
			}})
			repl = blk
		} else if d, ok := st.(*ast.DeferStmt); ok && !done[st] {
			// defer close(ch) / defer wg.Done() ...: the operation is visible when it runs
			if k := syncKind(&ast.ExprStmt{X: d.Call}, info); k != "" {
				done[st] = true
				blk := &ast.BlockStmt{}
				call := d.Call
				if id, isIdent := call.Fun.(*ast.Ident); isIdent && id.Name == "close" && len(call.Args) == 1 {
					// the argument of a deferred call is evaluated at the defer statement
					blk.List = append(blk.List, &ast.AssignStmt{Lhs: []ast.Expr{ast.NewIdent("__vd0")}, Tok: token.DEFINE, Rhs: []ast.Expr{call.Args[0]}})
					call = &ast.CallExpr{Fun: ast.NewIdent("close"), Args: []ast.Expr{ast.NewIdent("__vd0")}}
				}
				inner := &ast.ExprStmt{X: call}
				done[inner] = true
				nd := &ast.DeferStmt{Call: &ast.CallExpr{Fun: &ast.FuncLit{Type: &ast.FuncType{Params: &ast.FieldList{}},
					Body: &ast.BlockStmt{List: []ast.Stmt{pointCall(k, posOf(st)), inner}}}}}
				done[nd] = true
				blk.List = append(blk.List, nd)
				repl = blk
			}
		} else if k := syncKind(st, info); k != "" && !done[st] {
			before = pointCall(k, posOf(st))
		}
		if repl == nil && before == nil {
			return true
		}
		changed = true
		if repl != nil {
			c.Replace(repl)
			return true // continue into the function literal / arguments
		}
		done[st] = true
		if c.Index() >= 0 {
			c.InsertBefore(before)
			return true
		}
		// not in a statement list (e.g. the statement of a label): wrap in a block
		c.Replace(&ast.BlockStmt{List: []ast.Stmt{before, st}})
		return true
	}, nil)
	return changed
}
