package interp

import (
	"fmt"
	"go/token"
	"go/types"
	"os"
	"strings"
	"time"

	"symgo/solver"
	"symgo/term"

	"golang.org/x/tools/go/ssa"
)

// ---- abort / panic kinds (host panics) ----

// goPanic is a Go-level panic inside interpreted code.
type goPanic struct {
	val Value // interface value passed to panic(), or nil for runtime errors
	msg string
}

// pathEnd ends the current path (not an error).
type pathEnd struct{ reason string }

// engineError is an unsupported construct or internal inconsistency.
type engineError struct{ msg string }

type threadKilled struct{}

func engineErr(f string, a ...any) engineError { return engineError{fmt.Sprintf(f, a...)} }

type fnInfo struct {
	idx   map[ssa.Value]int
	n     int
	intr  Intrinsic
	intrK bool // intrinsic lookup done
	repo  bool
	seen  bool
	ifIdx map[*ssa.If]int
}

type frame struct {
	fn      *ssa.Function
	info    *fnInfo
	env     []Value
	block   *ssa.BasicBlock
	prev    *ssa.BasicBlock
	defers  []deferred
	caller  *frame
	result  Value
	panick  *goPanic
	callPos token.Pos
}

type deferred struct {
	fn   Value
	args []Value
	call *ssa.CallCommon
}

type Intrinsic func(in *Interp, fr *frame, args []Value, call *ssa.CallCommon) Value

// Interp is a per-worker interpreter.
type Interp struct {
	P   *Program
	M   *term.M
	S   *solver.S
	Cfg *Config
	ID  int

	layouts map[types.Type]*layout
	zeros   map[types.Type][]Value
	consts  map[*ssa.Const]Value
	fninfo  map[*ssa.Function]*fnInfo
	globals map[*ssa.Global]*Object
	inited  map[*ssa.Package]bool

	initPhase  bool
	journal    []undoRec
	mapJournal []mapUndo
	nextObj    int
	baseObj    int

	path *Path

	// threads
	threads []*Thread
	cur     *Thread
	toSched chan schedEvent
	sched   bool // scheduler mode (preemption at visible operations)

	fs   *FS
	race *raceMon

	mutexes map[Ptr]*mutexState
	onces   map[Ptr]*onceState
	wgs     map[Ptr]*wgState
	timers  []*timerObj

	steps    int64
	cov      *Coverage
	errTypes map[string]*Object
	specials map[string]Value
	floatID  int
	hashApps []hashApp
	errObjs  map[string]Iface

	depth      int
	noConcFmt  bool
	lastStack  string
	ctxs       []*ctxObj
	curIns     ssa.Instruction
	nextThread *Thread
}

func NewInterp(p *Program, cfg *Config, id int) *Interp {
	m := term.NewM()
	in := &Interp{P: p, M: m, Cfg: cfg, ID: id,
		layouts: map[types.Type]*layout{}, zeros: map[types.Type][]Value{}, consts: map[*ssa.Const]Value{},
		fninfo: map[*ssa.Function]*fnInfo{}, globals: map[*ssa.Global]*Object{}, inited: map[*ssa.Package]bool{},
		toSched: make(chan schedEvent), specials: map[string]Value{}, errObjs: map[string]Iface{},
	}
	in.S = solver.New(m, cfg.SolverTimeoutMs)
	if qlog := os.Getenv("SYMGO_QLOG"); qlog != "" {
		if f, err := os.OpenFile(fmt.Sprintf("%s.%d", qlog, id), os.O_CREATE|os.O_WRONLY|os.O_APPEND, 0o644); err == nil {
			in.S.LogFile = f
		}
	}
	in.cov = newCoverage()
	in.path = &Path{}
	return in
}

func (in *Interp) info(fn *ssa.Function) *fnInfo {
	if fi, ok := in.fninfo[fn]; ok {
		return fi
	}
	fi := &fnInfo{idx: map[ssa.Value]int{}}
	n := 0
	for _, p := range fn.Params {
		fi.idx[p] = n
		n++
	}
	for _, fv := range fn.FreeVars {
		fi.idx[fv] = n
		n++
	}
	for _, b := range fn.Blocks {
		for _, ins := range b.Instrs {
			if v, ok := ins.(ssa.Value); ok {
				fi.idx[v] = n
				n++
			}
		}
	}
	fi.n = n
	if _, ok := in.P.fnFile[fn]; ok {
		fi.repo = true
	} else if fn.Parent() != nil {
		if _, ok := in.P.fnFile[fn.Parent()]; ok {
			fi.repo = true
		}
	}
	in.fninfo[fn] = fi
	return fi
}

func (in *Interp) get(fr *frame, v ssa.Value) Value {
	switch x := v.(type) {
	case *ssa.Const:
		return in.constValue(x)
	case *ssa.Global:
		return Ptr{in.global(x), 0}
	case *ssa.Function:
		return &Closure{Fn: x}
	case *ssa.Builtin:
		return &Closure{Intr: "builtin:" + x.Name()}
	}
	i, ok := fr.info.idx[v]
	if !ok {
		panic(engineErr("no slot for value %s in %s", v.Name(), fr.fn))
	}
	r := fr.env[i]
	if r == nil {
		panic(engineErr("use of unset value %s (%T) in %s", v.Name(), v, fr.fn))
	}
	return r
}

func (in *Interp) set(fr *frame, v ssa.Value, val Value) {
	fr.env[fr.info.idx[v]] = val
}

// ---- globals and package init ----

var initAllow = []string{
	RepoModule,
	"io", "io/fs", "internal/oserror", "errors", "bufio", "bytes", "container/list", "encoding/binary",
	"github.com/multiformats/go-multihash", "github.com/multiformats/go-varint", "github.com/ipfs/go-cid",
	"github.com/ipfs/go-block-format", "github.com/ipfs/go-ipld-format", "context", "sort", "strings", "unicode/utf8",
	"math", "math/bits", "strconv", "github.com/multiformats/go-multibase", "github.com/mr-tron/base58/base58",
	"github.com/multiformats/go-base32", "github.com/multiformats/go-base36", "encoding/hex", "encoding/base64",
}

func initAllowed(path string) bool {
	for _, a := range initAllow {
		if path == a || a == RepoModule && strings.HasPrefix(path, a) {
			return true
		}
	}
	return false
}

func (in *Interp) global(g *ssa.Global) *Object {
	if o, ok := in.globals[g]; ok {
		return o
	}
	// run the package initialiser first (once), if allowed
	pkg := g.Pkg
	if pkg != nil && !in.inited[pkg] && initAllowed(pkg.Pkg.Path()) {
		in.runInit(pkg)
		if o, ok := in.globals[g]; ok {
			return o
		}
	}
	t := g.Type().(*types.Pointer).Elem()
	save := in.initPhase
	in.initPhase = true
	o := in.newObject(t)
	in.initPhase = save
	o.Global = g
	in.globals[g] = o
	if pkg != nil && !initAllowed(pkg.Pkg.Path()) {
		if v, ok := in.specialGlobal(g); ok {
			in.setSlot(o, 0, v)
		} else if !zeroOKGlobal(g) {
			o.Native = Poison{"global " + g.String() + " of package that is not initialised by the engine"}
		}
	}
	return o
}

func zeroOKGlobal(g *ssa.Global) bool {
	switch g.String() {
	case "github.com/ipfs/go-ipfs-util.Debug":
		return true
	}
	return false
}

func (in *Interp) runInit(pkg *ssa.Package) {
	if in.inited[pkg] {
		return
	}
	in.inited[pkg] = true
	fn := pkg.Func("init")
	if fn == nil || fn.Blocks == nil {
		return
	}
	saveInit := in.initPhase
	savePath := in.path
	in.initPhase = true
	in.path = &Path{initMode: true}
	defer func() {
		in.initPhase = saveInit
		in.path = savePath
	}()
	in.callSSA(fn, nil, nil, nil)
}

// ---- calls ----

func (in *Interp) callValue(fv Value, args []Value, caller *frame, call *ssa.CallCommon) Value {
	switch f := fv.(type) {
	case *Closure:
		if f == nil {
			panic(goPanic{msg: "runtime error: invalid memory address or nil pointer dereference (nil func)"})
		}
		if f.Intr != "" {
			if len(f.Env) > 0 {
				args = append(append([]Value{}, f.Env...), args...)
			}
			return in.callNamedIntrinsic(f.Intr, caller, args, call)
		}
		return in.callFn(f.Fn, args, f.Env, caller, call)
	}
	panic(engineErr("call of non-function value %T", fv))
}

func (in *Interp) callFn(fn *ssa.Function, args []Value, env []Value, caller *frame, call *ssa.CallCommon) Value {
	if fn.Pkg != nil && fn.Name() == "init" && fn.Signature.Recv() == nil && fn.Parent() == nil && fn == fn.Pkg.Func("init") {
		if !initAllowed(fn.Pkg.Pkg.Path()) {
			return nil
		}
		in.runInit(fn.Pkg)
		return nil
	}
	fi := in.info(fn)
	if !fi.intrK {
		fi.intrK = true
		fi.intr = lookupIntrinsic(fn)
	}
	if fi.intr != nil {
		return fi.intr(in, caller, args, call)
	}
	if fn.Blocks == nil {
		if in.initPhase && in.path.initMode {
			return Poison{"call of external function " + fn.String()}
		}
		panic(engineErr("unsupported: external function %s", fn.String()))
	}
	return in.callSSA(fn, args, env, caller)
}

func (in *Interp) callSSA(fn *ssa.Function, args []Value, env []Value, caller *frame) (ret Value) {
	fi := in.info(fn)
	if fi.repo && !fi.seen {
		fi.seen = true
		in.cov.Fns[fn] = true
	}
	fr := &frame{fn: fn, info: fi, env: make([]Value, fi.n), caller: caller}
	copy(fr.env, args)
	copy(fr.env[len(fn.Params):], env)
	if len(args) != len(fn.Params) {
		panic(engineErr("call %s: %d args for %d params", fn, len(args), len(fn.Params)))
	}
	in.depth++
	if in.depth > 2000 {
		panic(engineErr("interpreter recursion too deep in %s", fn))
	}
	defer func() {
		in.depth--
		r := recover()
		if r == nil {
			return
		}
		gp, ok := r.(goPanic)
		if !ok {
			switch r.(type) {
			case pathEnd, threadKilled:
			default:
				if in.lastStack == "" {
					in.lastStack = in.stackOf(fr)
				}
			}
			panic(r)
		}
		// Go-level panic: run deferred calls; one may recover.
		fr.panick = &gp
		in.runDefers(fr)
		if fr.panick != nil {
			panic(*fr.panick)
		}
		// recovered
		if fn.Recover != nil {
			fr.block = fn.Recover
			fr.prev = nil
			ret = in.runBlocks(fr)
			return
		}
		ret = in.zeroResults(fn)
	}()
	fr.block = fn.Blocks[0]
	return in.runBlocks(fr)
}

func (in *Interp) zeroResults(fn *ssa.Function) Value {
	res := fn.Signature.Results()
	switch res.Len() {
	case 0:
		return nil
	case 1:
		return in.zeroValue(res.At(0).Type())
	}
	return in.zeroValue(res)
}

func (in *Interp) runDefers(fr *frame) {
	for len(fr.defers) > 0 {
		d := fr.defers[len(fr.defers)-1]
		fr.defers = fr.defers[:len(fr.defers)-1]
		in.callDeferred(fr, d)
	}
}

func (in *Interp) callDeferred(fr *frame, d deferred) {
	if c, ok := d.fn.(*Closure); ok && c != nil && c.Intr == "builtin:recover" {
		in.doRecover(fr)
		return
	}
	in.callValue(d.fn, d.args, fr, d.call)
}

func (in *Interp) doRecover(fr *frame) Value {
	// recover() is only effective when called directly by a deferred function
	// of a panicking frame: fr is the frame of the deferred function's caller.
	if fr != nil && fr.panick != nil {
		p := fr.panick
		fr.panick = nil
		if p.val != nil {
			return p.val
		}
		return in.runtimeErrorIface(p.msg)
	}
	return Iface{}
}

func (in *Interp) runtimeErrorIface(msg string) Value {
	return in.newErr(msg, Iface{}, "runtime.Error")
}

func (in *Interp) runBlocks(fr *frame) Value {
	for {
		b := fr.block
		// phi nodes are evaluated in parallel on block entry
		nphi := 0
		for _, ins := range b.Instrs {
			if _, ok := ins.(*ssa.Phi); !ok {
				break
			}
			nphi++
		}
		if nphi > 0 {
			edge := -1
			for i, pred := range b.Preds {
				if pred == fr.prev {
					edge = i
					break
				}
			}
			if edge < 0 {
				panic(engineErr("phi without matching predecessor in %s", fr.fn))
			}
			if nphi == 1 {
				x := b.Instrs[0].(*ssa.Phi)
				in.set(fr, x, in.get(fr, x.Edges[edge]))
			} else {
				tmp := make([]Value, nphi)
				for i := 0; i < nphi; i++ {
					tmp[i] = in.get(fr, b.Instrs[i].(*ssa.Phi).Edges[edge])
				}
				for i := 0; i < nphi; i++ {
					in.set(fr, b.Instrs[i].(*ssa.Phi), tmp[i])
				}
			}
			in.steps += int64(nphi)
		}
		for _, ins := range b.Instrs[nphi:] {
			in.steps++
			in.curIns = ins
			if in.steps > in.Cfg.MaxSteps {
				in.path.inconclusive("unwind: per-path instruction budget exhausted")
				panic(pathEnd{"budget"})
			}
			if in.steps&0xFFFFF == 0 && !in.S.Deadline.IsZero() && time.Now().After(in.S.Deadline) {
				in.path.inconclusive("wall-clock budget of the run exhausted inside a path")
				panic(pathEnd{"budget"})
			}
			switch x := ins.(type) {
			case *ssa.Jump:
				fr.prev, fr.block = b, b.Succs[0]
			case *ssa.If:
				c := in.get(fr, x.Cond).(*term.T)
				var taken bool
				if c.IsConst() {
					taken = c.Val != 0
				} else {
					taken = in.branch(c)
				}
				if fr.info.repo {
					in.cov.hit(x, taken)
				}
				if taken {
					fr.prev, fr.block = b, b.Succs[0]
				} else {
					fr.prev, fr.block = b, b.Succs[1]
				}
			case *ssa.Return:
				switch len(x.Results) {
				case 0:
					return nil
				case 1:
					return in.get(fr, x.Results[0])
				}
				t := make(Tuple, len(x.Results))
				for i, r := range x.Results {
					t[i] = in.get(fr, r)
				}
				return t
			case *ssa.Panic:
				v := in.get(fr, x.X)
				panic(goPanic{val: v, msg: in.panicString(v)})
			default:
				if in.initPhase && fr.fn.Synthetic != "" && fr.fn.Name() == "init" {
					in.execInit(fr, ins)
				} else {
					in.exec(fr, ins)
				}
				continue
			}
			break
		}
	}
}

func (in *Interp) panicString(v Value) string {
	if i, ok := v.(Iface); ok {
		switch s := i.V.(type) {
		case Str:
			return "panic: " + s.S
		}
		if i.T != nil {
			if isErrorLike(i) {
				return "panic: " + in.errorString(i)
			}
			return "panic: value of type " + i.T.String()
		}
	}
	return "panic"
}

// exec executes one non-control instruction.
func (in *Interp) exec(fr *frame, ins ssa.Instruction) {
	switch x := ins.(type) {
	case *ssa.Alloc:
		o := in.newObject(x.Type().(*types.Pointer).Elem())
		in.set(fr, x, Ptr{o, 0})
	case *ssa.UnOp:
		in.set(fr, x, in.unop(fr, x))
	case *ssa.BinOp:
		in.set(fr, x, in.binop(x.Op, in.get(fr, x.X), in.get(fr, x.Y), x.X.Type(), x.Y.Type()))
	case *ssa.Call:
		in.set(fr, x, in.doCall(fr, &x.Call, x.Pos()))
	case *ssa.Store:
		p := in.get(fr, x.Addr).(Ptr)
		in.checkPoison(p)
		in.store(p, x.Val.Type(), in.get(fr, x.Val))
	case *ssa.Phi:
		panic(engineErr("phi not at block start"))
	case *ssa.FieldAddr:
		p := in.get(fr, x.X).(Ptr)
		if p.Obj == nil {
			panic(goPanic{msg: "runtime error: invalid memory address or nil pointer dereference"})
		}
		st := x.X.Type().Underlying().(*types.Pointer).Elem()
		in.set(fr, x, Ptr{p.Obj, p.Off + in.lay(st).fields[x.Field]})
	case *ssa.Field:
		in.set(fr, x, in.get(fr, x.X).(Struct)[x.Field])
	case *ssa.IndexAddr:
		in.set(fr, x, in.indexAddr(fr, x))
	case *ssa.Index:
		in.set(fr, x, in.index(fr, x))
	case *ssa.Extract:
		tv := in.get(fr, x.Tuple)
		if po, ok := tv.(Poison); ok {
			in.set(fr, x, po)
		} else {
			in.set(fr, x, tv.(Tuple)[x.Index])
		}
	case *ssa.Slice:
		in.set(fr, x, in.sliceOp(fr, x))
	case *ssa.MakeSlice:
		n := in.concInt(in.get(fr, x.Len).(*term.T), "make-len")
		c := in.concInt(in.get(fr, x.Cap).(*term.T), "make-cap")
		if n < 0 || c < n || c > 1<<32 {
			panic(goPanic{msg: "runtime error: makeslice: len out of range"})
		}
		et := x.Type().Underlying().(*types.Slice).Elem()
		o := in.newArrayObject(et, c)
		in.set(fr, x, Slice{Obj: o, Len: n, Cap: c, ES: in.lay(et).slots})
	case *ssa.MakeMap:
		mt := x.Type().Underlying().(*types.Map)
		in.set(fr, x, in.newMap(mt))
	case *ssa.MakeChan:
		n := in.concInt(in.get(fr, x.Size).(*term.T), "chan-size")
		in.set(fr, x, in.newChan(n))
	case *ssa.MakeClosure:
		env := make([]Value, len(x.Bindings))
		for i, b := range x.Bindings {
			env[i] = in.get(fr, b)
		}
		in.set(fr, x, &Closure{Fn: x.Fn.(*ssa.Function), Env: env})
	case *ssa.MakeInterface:
		in.set(fr, x, Iface{T: x.X.Type(), V: in.get(fr, x.X)})
	case *ssa.ChangeInterface:
		in.set(fr, x, in.get(fr, x.X))
	case *ssa.ChangeType:
		in.set(fr, x, in.get(fr, x.X))
	case *ssa.Convert:
		in.set(fr, x, in.convert(in.get(fr, x.X), x.X.Type(), x.Type()))
	case *ssa.SliceToArrayPointer:
		s := in.get(fr, x.X).(Slice)
		n := int(x.Type().Underlying().(*types.Pointer).Elem().Underlying().(*types.Array).Len())
		if s.Len < n {
			panic(goPanic{msg: "runtime error: cannot convert slice to array pointer: length too short"})
		}
		in.set(fr, x, Ptr{s.Obj, s.Off})
	case *ssa.TypeAssert:
		in.set(fr, x, in.typeAssert(fr, x))
	case *ssa.Lookup:
		in.set(fr, x, in.lookup(fr, x))
	case *ssa.MapUpdate:
		m := in.get(fr, x.Map).(*MapObj)
		if m == nil {
			panic(goPanic{msg: "assignment to entry in nil map"})
		}
		in.mapSet(m, in.get(fr, x.Key), in.get(fr, x.Value))
	case *ssa.Range:
		in.set(fr, x, in.rangeStart(in.get(fr, x.X)))
	case *ssa.Next:
		in.set(fr, x, in.rangeNext(in.get(fr, x.Iter).(Native).P.(*rangeIter), x))
	case *ssa.Defer:
		fv, args := in.prepareCall(fr, &x.Call)
		fr.defers = append(fr.defers, deferred{fv, args, &x.Call})
	case *ssa.RunDefers:
		in.runDefers(fr)
	case *ssa.Go:
		fv, args := in.prepareCall(fr, &x.Call)
		in.spawn(fv, args, fr, &x.Call)
	case *ssa.Send:
		in.chanSend(in.get(fr, x.Chan).(*ChanObj), in.get(fr, x.X))
	case *ssa.Select:
		in.set(fr, x, in.selectOp(fr, x))
	case *ssa.DebugRef:
	default:
		panic(engineErr("unsupported instruction %T in %s", ins, fr.fn))
	}
}

func (in *Interp) checkPoison(p Ptr) {
}

// prepareCall evaluates the callee and the arguments.
func (in *Interp) prepareCall(fr *frame, c *ssa.CallCommon) (Value, []Value) {
	if c.IsInvoke() {
		recv := in.get(fr, c.Value).(Iface)
		if recv.T == nil {
			panic(goPanic{msg: "runtime error: invalid memory address or nil pointer dereference (nil interface method call " + c.Method.Name() + ")"})
		}
		args := make([]Value, 0, len(c.Args)+1)
		args = append(args, recv.V)
		for _, a := range c.Args {
			args = append(args, in.get(fr, a))
		}
		if nt, ok := recv.T.(*nativeType); ok {
			return &Closure{Intr: "native:" + nt.name + "." + c.Method.Name()}, args
		}
		fn := in.P.Prog.LookupMethod(recv.T, c.Method.Pkg(), c.Method.Name())
		if fn == nil {
			panic(engineErr("method %s not found on %s", c.Method.Name(), recv.T))
		}
		return &Closure{Fn: fn}, args
	}
	args := make([]Value, len(c.Args))
	for i, a := range c.Args {
		args[i] = in.get(fr, a)
	}
	switch f := c.Value.(type) {
	case *ssa.Function:
		return &Closure{Fn: f}, args
	case *ssa.Builtin:
		return &Closure{Intr: "builtin:" + f.Name()}, args
	}
	return in.get(fr, c.Value), args
}

func (in *Interp) doCall(fr *frame, c *ssa.CallCommon, pos token.Pos) Value {
	// fast paths
	if !c.IsInvoke() {
		switch f := c.Value.(type) {
		case *ssa.Builtin:
			args := make([]Value, len(c.Args))
			for i, a := range c.Args {
				args[i] = in.get(fr, a)
			}
			return in.builtin(fr, f.Name(), args, c)
		case *ssa.Function:
			args := make([]Value, len(c.Args))
			for i, a := range c.Args {
				args[i] = in.get(fr, a)
			}
			return in.callFn(f, args, nil, fr, c)
		}
	}
	fv, args := in.prepareCall(fr, c)
	return in.callValue(fv, args, fr, c)
}

func (in *Interp) callNamedIntrinsic(name string, fr *frame, args []Value, call *ssa.CallCommon) Value {
	if strings.HasPrefix(name, "builtin:") {
		return in.builtin(fr, name[8:], args, call)
	}
	if strings.HasPrefix(name, "native:") {
		return in.nativeMethod(name[7:], fr, args, call)
	}
	if f, ok := intrinsics[name]; ok {
		return f(in, fr, args, call)
	}
	panic(engineErr("unknown engine function %s", name))
}

// ---- memory-ish instructions ----

func (in *Interp) unop(fr *frame, x *ssa.UnOp) Value {
	v := in.get(fr, x.X)
	switch x.Op {
	case token.MUL: // load
		p := v.(Ptr)
		if p.Obj != nil && p.Obj.Native != nil {
			if po, ok := p.Obj.Native.(Poison); ok {
				panic(engineErr("unsupported: %s", po.Why))
			}
		}
		return in.load(p, x.Type())
	case token.NOT:
		return in.M.Not(v.(*term.T))
	case token.SUB:
		switch a := v.(type) {
		case *term.T:
			return in.M.BvNeg(a)
		case Float:
			if a.Opaque {
				return in.opaqueFloat()
			}
			return Float{V: -a.V}
		}
	case token.XOR:
		return in.M.BvNot(v.(*term.T))
	case token.ARROW:
		val, ok := in.chanRecv(v.(*ChanObj), x.X.Type().Underlying().(*types.Chan).Elem())
		if x.CommaOk {
			return Tuple{val, in.M.Bool(ok)}
		}
		return val
	}
	panic(engineErr("unsupported unop %s on %T", x.Op, v))
}

func (in *Interp) indexAddr(fr *frame, x *ssa.IndexAddr) Value {
	idx := in.concInt(in.get(fr, x.Index).(*term.T), "index")
	switch b := in.get(fr, x.X).(type) {
	case Slice:
		if idx < 0 || idx >= b.Len {
			panic(goPanic{msg: fmt.Sprintf("runtime error: index out of range [%d] with length %d", idx, b.Len)})
		}
		return Ptr{b.Obj, b.Off + idx*b.ES}
	case Ptr: // *array
		if b.Obj == nil {
			panic(goPanic{msg: "runtime error: invalid memory address or nil pointer dereference"})
		}
		at := x.X.Type().Underlying().(*types.Pointer).Elem().Underlying().(*types.Array)
		if idx < 0 || idx >= int(at.Len()) {
			panic(goPanic{msg: fmt.Sprintf("runtime error: index out of range [%d] with length %d", idx, at.Len())})
		}
		return Ptr{b.Obj, b.Off + idx*in.lay(at.Elem()).slots}
	}
	panic(engineErr("IndexAddr on %T", in.get(fr, x.X)))
}

func (in *Interp) index(fr *frame, x *ssa.Index) Value {
	idx := in.concInt(in.get(fr, x.Index).(*term.T), "index")
	switch b := in.get(fr, x.X).(type) {
	case Array:
		if idx < 0 || idx >= len(b) {
			panic(goPanic{msg: fmt.Sprintf("runtime error: index out of range [%d] with length %d", idx, len(b))})
		}
		return b[idx]
	case Str:
		if idx < 0 || idx >= b.Len() {
			panic(goPanic{msg: fmt.Sprintf("runtime error: index out of range [%d] with length %d", idx, b.Len())})
		}
		return in.strByte(b, idx)
	}
	panic(engineErr("Index on %T", in.get(fr, x.X)))
}

func (in *Interp) sliceOp(fr *frame, x *ssa.Slice) Value {
	base := in.get(fr, x.X)
	lo, hi, max := 0, -1, -1
	if x.Low != nil {
		lo = in.concInt(in.get(fr, x.Low).(*term.T), "slice-lo")
	}
	if x.High != nil {
		hi = in.concInt(in.get(fr, x.High).(*term.T), "slice-hi")
	}
	if x.Max != nil {
		max = in.concInt(in.get(fr, x.Max).(*term.T), "slice-max")
	}
	oob := func(msg string) {
		panic(goPanic{msg: "runtime error: slice bounds out of range " + msg})
	}
	switch b := base.(type) {
	case Slice:
		if hi < 0 {
			hi = b.Len
		}
		if max < 0 {
			max = b.Cap
		}
		if lo < 0 || lo > hi || hi > max || max > b.Cap {
			oob(fmt.Sprintf("[%d:%d:%d] with capacity %d", lo, hi, max, b.Cap))
		}
		if b.Obj == nil {
			return Slice{ES: b.ES}
		}
		return Slice{Obj: b.Obj, Off: b.Off + lo*b.ES, Len: hi - lo, Cap: max - lo, ES: b.ES}
	case Str:
		n := b.Len()
		if hi < 0 {
			hi = n
		}
		if lo < 0 || lo > hi || hi > n {
			oob(fmt.Sprintf("[%d:%d] with length %d", lo, hi, n))
		}
		if b.Sym == nil {
			return Str{S: b.S[lo:hi]}
		}
		return in.strFromTerms(b.Sym[lo:hi])
	case Ptr: // *array
		if b.Obj == nil {
			panic(goPanic{msg: "runtime error: invalid memory address or nil pointer dereference"})
		}
		at := x.X.Type().Underlying().(*types.Pointer).Elem().Underlying().(*types.Array)
		n := int(at.Len())
		if hi < 0 {
			hi = n
		}
		if max < 0 {
			max = n
		}
		if lo < 0 || lo > hi || hi > max || max > n {
			oob(fmt.Sprintf("[%d:%d:%d] with array length %d", lo, hi, max, n))
		}
		es := in.lay(at.Elem()).slots
		return Slice{Obj: b.Obj, Off: b.Off + lo*es, Len: hi - lo, Cap: max - lo, ES: es}
	}
	panic(engineErr("Slice on %T", base))
}

func (in *Interp) typeAssert(fr *frame, x *ssa.TypeAssert) Value {
	v := in.get(fr, x.X).(Iface)
	ok := false
	var res Value
	if v.T != nil {
		if types.IsInterface(x.AssertedType) {
			if _, isNat := v.T.(*nativeType); isNat {
				ok = nativeImplements(v.T.(*nativeType), x.AssertedType)
			} else {
				ok = types.AssignableTo(v.T, x.AssertedType) || types.Implements(v.T, x.AssertedType.Underlying().(*types.Interface))
			}
			res = v
		} else {
			ok = types.Identical(v.T, x.AssertedType)
			res = v.V
		}
	}
	if x.CommaOk {
		if !ok {
			if types.IsInterface(x.AssertedType) {
				res = Iface{}
			} else {
				res = in.zeroValue(x.AssertedType)
			}
		}
		return Tuple{res, in.M.Bool(ok)}
	}
	if !ok {
		have := "nil"
		if v.T != nil {
			have = v.T.String()
		}
		panic(goPanic{msg: fmt.Sprintf("interface conversion: interface is %s, not %s", have, x.AssertedType)})
	}
	return res
}

func (in *Interp) lookup(fr *frame, x *ssa.Lookup) Value {
	switch b := in.get(fr, x.X).(type) {
	case *MapObj:
		mt := x.X.Type().Underlying().(*types.Map)
		var v Value
		found := false
		if b != nil {
			v, found = in.mapGet(b, in.get(fr, x.Index))
		}
		if !found {
			v = in.zeroValue(mt.Elem())
		}
		if x.CommaOk {
			return Tuple{v, in.M.Bool(found)}
		}
		return v
	case Str:
		idx := in.concInt(in.get(fr, x.Index).(*term.T), "str-index")
		if idx < 0 || idx >= b.Len() {
			panic(goPanic{msg: fmt.Sprintf("runtime error: index out of range [%d] with length %d", idx, b.Len())})
		}
		return in.strByte(b, idx)
	}
	panic(engineErr("Lookup on %T", in.get(fr, x.X)))
}

// specialGlobal provides values for a few globals of packages whose
// initialisers are not run by the engine.
func (in *Interp) specialGlobal(g *ssa.Global) (Value, bool) {
	name := g.String()
	if v, ok := in.specials[name]; ok {
		return v, true
	}
	var v Value
	switch name {
	case "os.ErrNotExist":
		v = in.newErr("file does not exist", Iface{}, "notexist")
	case "os.ErrExist":
		v = in.newErr("file already exists", Iface{}, "exist")
	case "os.ErrClosed":
		v = in.newErr("file already closed", Iface{}, "closed")
	case "os.ErrInvalid":
		v = in.newErr("invalid argument", Iface{}, "invalid")
	case "os.ErrPermission":
		v = in.newErr("permission denied", Iface{}, "perm")
	default:
		return nil, false
	}
	in.specials[name] = v
	return v, true
}

func (in *Interp) stackOf(fr *frame) string {
	var sb strings.Builder
	for f, n := fr, 0; f != nil && n < 25; f, n = f.caller, n+1 {
		fmt.Fprintf(&sb, "\n    at %s", f.fn.String())
	}
	if in.curIns != nil {
		fmt.Fprintf(&sb, "\n    instr: %s @ %s", in.curIns.String(), in.P.Prog.Fset.Position(in.curIns.Pos()))
	}
	return sb.String()
}

// execInit executes one instruction of a synthesized package initialiser; an
// unsupported operation poisons the produced value instead of aborting.
func (in *Interp) execInit(fr *frame, ins ssa.Instruction) {
	defer func() {
		if r := recover(); r != nil {
			switch r.(type) {
			case pathEnd, threadKilled:
				panic(r)
			}
			in.lastStack = ""
			if v, ok := ins.(ssa.Value); ok {
				in.set(fr, v, Poison{fmt.Sprintf("package initialiser of %s could not evaluate %s: %v", fr.fn.Pkg.Pkg.Path(), ins, r)})
			}
		}
	}()
	in.exec(fr, ins)
}
