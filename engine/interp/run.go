package interp

import (
	"encoding/json"
	"fmt"
	"go/constant"
	"runtime/debug"
	"sort"
	"strings"
	"sync"
	"sync/atomic"
	"time"

	"symgo/term"

	"golang.org/x/tools/go/ssa"
)

// Coverage records branch outcomes of repository functions.
type Coverage struct {
	T, F map[*ssa.If]bool
	Fns  map[*ssa.Function]bool
}

func newCoverage() *Coverage {
	return &Coverage{T: map[*ssa.If]bool{}, F: map[*ssa.If]bool{}, Fns: map[*ssa.Function]bool{}}
}

func (c *Coverage) hit(i *ssa.If, taken bool) {
	if taken {
		c.T[i] = true
	} else {
		c.F[i] = true
	}
}

func (c *Coverage) merge(o *Coverage) {
	for k := range o.T {
		c.T[k] = true
	}
	for k := range o.F {
		c.F[k] = true
	}
	for k := range o.Fns {
		c.Fns[k] = true
	}
}

// PathSummary is what a finished path reports.
type PathSummary struct {
	Forks      []workItem
	Incon      []string
	Covers     map[string]bool
	Obligs     int
	Discharged int
	Trivial    int
	Violations []Violation
	FeasQ      int
	Branches   int
	Steps      int64
	Completed  bool
	AssumeFail bool
	EngineErr  string
	Decisions  int
	Sample     *PathSample
	Preempts   int
}

type PathSample struct {
	Schedule  []SchedEv         `json:"-"`
	Complete  bool              `json:"-"`
	Decisions int               `json:"decisions"`
	Steps     int64             `json:"instructions"`
	Nondet    []replayVal       `json:"nondet_model,omitempty"`
	Obligs    int               `json:"obligations"`
	Notes     []string          `json:"notes,omitempty"`
}

// resetPath prepares per-path state.
func (in *Interp) resetPath(item workItem) {
	in.path = &Path{prefix: item.prefix, model: copyModel(item.model)}
	if len(item.prefix) == 0 && item.model == nil {
		in.path.model = term.Model{}
	}
	in.fs = newFS()
	in.threads = nil
	in.cur = nil
	in.nextThread = nil
	in.mutexes = map[Ptr]*mutexState{}
	in.onces = map[Ptr]*onceState{}
	in.wgs = map[Ptr]*wgState{}
	in.timers = nil
	in.ctxs = nil
	in.steps = 0
	in.nextObj = in.baseObj
	in.hashApps = nil
	in.journal = in.journal[:0]
	in.mapJournal = in.mapJournal[:0]
	in.depth = 0
	in.floatID = 0
	in.sched = false // switched on by vrt.SchedBegin
	if in.Cfg.Race {
		in.race = newRaceMon()
	} else {
		in.race = nil
	}
	if in.M.Size() > 3_000_000 {
		// term table too large: start a fresh manager (constants are re-created lazily)
		in.resetTerms()
	}
}

func (in *Interp) resetTerms() {
	in.S.Close()
	old := in.Cfg
	cov := in.cov
	*in = *NewInterp(in.P, old, in.ID)
	in.cov = cov
	in.warm()
}

// warm runs package initialisers that harnesses need, once per worker.
func (in *Interp) warm() {
	in.initPhase = true
	in.path = &Path{initMode: true}
	for _, sp := range in.P.Prog.AllPackages() {
		if strings.HasPrefix(sp.Pkg.Path(), RepoModule) {
			in.runInit(sp)
		}
	}
	in.initPhase = false
	in.baseObj = in.nextObj + 1000
}

func (in *Interp) undo() {
	for i := len(in.journal) - 1; i >= 0; i-- {
		u := in.journal[i]
		if u.o.N > sparseThreshold {
			if u.o.sparse != nil {
				u.o.sparse[u.i] = u.v
			}
		} else if u.o.cells != nil {
			u.o.cells[u.i] = u.v
		}
	}
	in.journal = in.journal[:0]
	for i := len(in.mapJournal) - 1; i >= 0; i-- {
		u := in.mapJournal[i]
		u.m.Ents = u.ents
	}
	in.mapJournal = in.mapJournal[:0]
}

// RunPath executes the harness along one decision prefix.
func (in *Interp) RunPath(fn *ssa.Function, item workItem) (sum *PathSummary) {
	in.resetPath(item)
	in.S.ResetPath()
	sum = &PathSummary{}
	main := &Thread{id: 0, name: "main", resume: make(chan struct{}), state: tsRunnable, vc: vclock{0: 1}, wvc: vclock{0: 1}, held: map[Ptr]int{}, lastLog: -1}
	in.threads = []*Thread{main}
	go in.threadBody(main, func() { in.callFn(fn, nil, nil, nil, nil) })

	cur := main
	var abort any
	mainDone := false
loop:
	for {
		in.cur = cur
		cur.resume <- struct{}{}
		ev := <-in.toSched
		switch ev.kind {
		case evDone:
			ev.t.state = tsDone
			if ev.t == main {
				mainDone = true
				break loop
			}
		case evAbort:
			ev.t.state = tsDone
			abort = ev.abort
			break loop
		case evYield:
		}
		next := in.safePick(&abort)
		if abort != nil {
			break loop
		}
		if next == nil {
			// deadlock: nobody can run and main has not finished
			in.reportDeadlock()
			break loop
		}
		cur = next
	}
	// kill remaining threads
	for _, t := range in.threads {
		if t.state != tsDone {
			t.killed = true
			in.cur = t
			t.resume <- struct{}{}
			<-in.toSched
			t.state = tsDone
		}
	}
	in.cur = nil
	p := in.path
	switch a := abort.(type) {
	case nil:
	case pathEnd:
	case goPanic:
		// uncaught Go panic in interpreted code: a Violation of whatever the harness checks
		label := "panic"
		in.reportPanic(label, a.msg)
	case engineError:
		sum.EngineErr = a.msg + in.lastStack
	default:
		sum.EngineErr = fmt.Sprintf("internal engine panic: %v%s", abort, in.lastStack)
	}
	in.lastStack = ""
	in.undo()
	sum.Forks = p.forks
	sum.Incon = p.incon
	sum.Covers = p.covers
	sum.Obligs = p.obligs
	sum.Discharged = p.discharged
	sum.Trivial = p.trivial
	sum.Violations = p.violations
	sum.FeasQ = p.feasQ
	sum.Branches = p.branches
	sum.Steps = in.steps
	sum.Completed = mainDone
	sum.AssumeFail = p.assumeFail
	sum.Decisions = len(p.trace)
	sum.Preempts = p.preempts
	if mainDone {
		sum.Sample = in.samplePath()
	}
	return sum
}

func (in *Interp) safePick(abort *any) (t *Thread) {
	defer func() {
		if r := recover(); r != nil {
			*abort = r
			t = nil
		}
	}()
	return in.pickNext()
}

func (in *Interp) reportDeadlock() {
	var sb strings.Builder
	for _, t := range in.threads {
		if t.state == tsBlocked {
			fmt.Fprintf(&sb, "[%d %s blocked in %s] ", t.id, t.name, t.what)
		}
	}
	in.violationNow("deadlock", "deadlock", sb.String())
}

func (in *Interp) reportPanic(label, msg string) {
	in.violationNow("panic", label, msg)
}

func (in *Interp) violationNow(kind, label, msg string) {
	defer func() {
		if r := recover(); r != nil {
			in.path.inconclusive(fmt.Sprintf("could not build model for %s: %v", kind, r))
		}
	}()
	p := in.path
	var m term.Model
	if p.model != nil {
		m = p.model
	} else {
		m = in.fullModel(in.M.True, nil)
	}
	if m == nil {
		p.inconclusive("no model for " + kind + " " + msg)
		return
	}
	short := msg
	if len(short) > 160 {
		short = short[:160]
	}
	in.recordViolation(kind, label, msg, map[string]any{"msg": short}, m)
}

func (in *Interp) samplePath() *PathSample {
	p := in.path
	s := &PathSample{Decisions: len(p.trace), Steps: in.steps, Obligs: p.obligs, Notes: p.notes}
	if p.model != nil && len(p.nondets) > 0 {
		ev := term.NewEvaluator(copyModel(p.model))
		for _, nd := range p.nondets {
			rv := replayVal{Label: nd.Label, Kind: nd.Kind}
			switch nd.Kind {
			case "choose":
				rv.V = uint64(nd.Conc)
			case "bytes":
				var sb strings.Builder
				for _, t := range nd.Terms {
					fmt.Fprintf(&sb, "%02x", ev.Eval(t))
				}
				rv.Bytes = sb.String()
			default:
				rv.V = ev.Eval(nd.Terms[0])
			}
			s.Nondet = append(s.Nondet, rv)
		}
		s.Complete = true
		if len(p.schedLog) > 0 {
			s.Schedule = append(s.Schedule, p.schedLog...)
		}
	}
	return s
}

// ---- harness-level driver ----

type HarnessResult struct {
	Harness     string
	Paths       int64
	Completed   int64
	AssumeEnded int64
	Steps       int64
	Branches    int64
	FeasQ       int64
	Obligs      int64
	Discharged  int64
	Trivial     int64
	MaxDecisions int
	Incon       map[string]int
	Covers      map[string]int64
	Expected    []string
	Violations  []Violation // deduplicated classes
	VioCount    map[string]int
	EngineErrs  map[string]int
	Samples     []*PathSample
	Cov         *Coverage
	Wall        time.Duration
	Truncated   bool
	TruncatedWhy string
	distinct    map[string]bool
	Distinct    int
}

func vioKey(v Violation) string {
	d, _ := json.Marshal(v.Diag)
	return v.Kind + "|" + v.Label + "|" + string(d)
}

// RunHarness explores all paths of one harness function.
func RunHarness(p *Program, cfg *Config, pkgPath, fnName string, log func(string, ...any)) (*HarnessResult, error) {
	fn := p.FindFunc(pkgPath, fnName)
	if fn == nil {
		return nil, fmt.Errorf("harness %s.%s not found", pkgPath, fnName)
	}
	res := &HarnessResult{Harness: pkgPath + "." + fnName, Incon: map[string]int{}, Covers: map[string]int64{},
		VioCount: map[string]int{}, EngineErrs: map[string]int{}, Cov: newCoverage(), distinct: map[string]bool{}}
	res.Expected = expectedCovers(p, fn)
	t0 := time.Now()

	var mu sync.Mutex
	cond := sync.NewCond(&mu)
	stack := []workItem{{}}
	active := 0
	var started int64
	stop := false

	worker := func(id int) {
		in := NewInterp(p, cfg, id)
		defer in.S.Close()
		if cfg.MaxWall > 0 {
			in.S.Deadline = t0.Add(cfg.MaxWall + 20*time.Second)
		}
		func() {
			defer func() {
				if r := recover(); r != nil {
					mu.Lock()
					if cfg.Verbose {
						fmt.Printf("init panic: %v\n%s\n", r, debug.Stack())
					}
					res.EngineErrs[fmt.Sprintf("init: %v%s", r, in.lastStack)]++
					stop = true
					cond.Broadcast()
					mu.Unlock()
				}
			}()
			in.warm()
		}()
		for {
			mu.Lock()
			for len(stack) == 0 && active > 0 && !stop {
				cond.Wait()
			}
			if stop || (len(stack) == 0 && active == 0) {
				cond.Broadcast()
				mu.Unlock()
				break
			}
			item := stack[len(stack)-1]
			stack = stack[:len(stack)-1]
			active++
			mu.Unlock()

			n := atomic.AddInt64(&started, 1)
			sum := in.RunPath(fn, item)

			mu.Lock()
			active--
			res.Paths++
			if sum.Completed {
				res.Completed++
			}
			if sum.AssumeFail {
				res.AssumeEnded++
			}
			res.Steps += sum.Steps
			res.Branches += int64(sum.Branches)
			res.FeasQ += int64(sum.FeasQ)
			res.Obligs += int64(sum.Obligs)
			res.Discharged += int64(sum.Discharged)
			res.Trivial += int64(sum.Trivial)
			if sum.Decisions > res.MaxDecisions {
				res.MaxDecisions = sum.Decisions
			}
			for _, w := range sum.Incon {
				res.Incon[w]++
			}
			for c := range sum.Covers {
				res.Covers[c]++
			}
			if sum.EngineErr != "" {
				res.EngineErrs[sum.EngineErr]++
			}
			for _, v := range sum.Violations {
				k := vioKey(v)
				if res.VioCount[k] == 0 {
					v.Harness = res.Harness
					res.Violations = append(res.Violations, v)
				}
				res.VioCount[k]++
			}
			if sum.Sample != nil {
				if len(res.Samples) < 3 || (res.Completed%997 == 0 && len(res.Samples) < 8) {
					res.Samples = append(res.Samples, sum.Sample)
				}
				if sum.Obligs > 0 || len(sum.Violations) > 0 {
					res.Distinct++
				}
			}
			if cfg.MaxPaths > 0 && n >= cfg.MaxPaths {
				res.Truncated = true
				res.TruncatedWhy = fmt.Sprintf("path budget (%d) exhausted", cfg.MaxPaths)
				stop = true
			}
			if len(res.Violations) >= 12 && !stop {
				// enough distinct counterexample classes: stop exploring, replay what we have
				res.Truncated = true
				res.TruncatedWhy = "stopped after 12 distinct violation classes"
				stop = true
			}
			if cfg.MaxWall > 0 && time.Since(t0) > cfg.MaxWall && !stop {
				res.Truncated = true
				res.TruncatedWhy = fmt.Sprintf("wall-clock budget (%s) exhausted", cfg.MaxWall)
				stop = true
			}
			if !stop {
				stack = append(stack, sum.Forks...)
			}
			if len(res.EngineErrs) > 0 && res.Paths > 50 && len(res.EngineErrs) > 20 {
				stop = true
			}
			cond.Broadcast()
			mu.Unlock()
			if log != nil && n%2000 == 0 {
				log("  %s: %d paths, stack %d, %.0fs", fnName, n, len(stack), time.Since(t0).Seconds())
			}
		}
		mu.Lock()
		res.Cov.merge(in.cov)
		mu.Unlock()
	}
	var wg sync.WaitGroup
	for i := 0; i < cfg.Workers; i++ {
		wg.Add(1)
		go func(i int) { defer wg.Done(); worker(i) }(i)
	}
	wg.Wait()
	res.Wall = time.Since(t0)
	sort.Slice(res.Violations, func(i, j int) bool { return vioKey(res.Violations[i]) < vioKey(res.Violations[j]) })
	return res, nil
}

// expectedCovers scans harness code statically for vrt.Cover("label") calls.
func expectedCovers(p *Program, root *ssa.Function) []string {
	seen := map[*ssa.Function]bool{}
	labels := map[string]bool{}
	var visit func(fn *ssa.Function)
	visit = func(fn *ssa.Function) {
		if fn == nil || seen[fn] || fn.Blocks == nil {
			return
		}
		seen[fn] = true
		pos := p.Prog.Fset.Position(fn.Pos())
		if !strings.Contains(pos.Filename, "zz_verif") && !strings.Contains(pos.Filename, "/internal/v") {
			if fn.Parent() == nil || !seen[fn.Parent()] {
				return
			}
		}
		for _, b := range fn.Blocks {
			for _, ins := range b.Instrs {
				var cc *ssa.CallCommon
				switch x := ins.(type) {
				case *ssa.Call:
					cc = &x.Call
				case *ssa.Defer:
					cc = &x.Call
				case *ssa.Go:
					cc = &x.Call
				case *ssa.MakeClosure:
					visit(x.Fn.(*ssa.Function))
				}
				if cc == nil {
					continue
				}
				if callee := cc.StaticCallee(); callee != nil {
					if callee.String() == vrtPkg+".Cover" {
						if c, ok := cc.Args[0].(*ssa.Const); ok && c.Value != nil && c.Value.Kind() == constant.String {
							labels[constant.StringVal(c.Value)] = true
						}
					}
					visit(callee)
				}
			}
		}
	}
	visit(root)
	return sortedKeys(labels)
}

func (r *HarnessResult) ViolationList() []Violation { return r.Violations }

// FuncCoverage returns, per executed repository function, the number of If
// instructions taken both ways and the total number of If instructions.
func (r *HarnessResult) FuncCoverage() map[string][2]int {
	out := map[string][2]int{}
	for fn := range r.Cov.Fns {
		both, total := 0, 0
		for _, b := range fn.Blocks {
			for _, ins := range b.Instrs {
				if i, ok := ins.(*ssa.If); ok {
					total++
					if r.Cov.T[i] && r.Cov.F[i] {
						both++
					}
				}
			}
		}
		out[fn.String()] = [2]int{both, total}
	}
	return out
}

type HarnessSet struct {
	PkgName string
	Names   []string
}

// HarnessFuncs lists the Verif_* entry points per package directory.
func (p *Program) HarnessFuncs() map[string]*HarnessSet {
	out := map[string]*HarnessSet{}
	for _, sp := range p.Prog.AllPackages() {
		if !strings.HasPrefix(sp.Pkg.Path(), RepoModule) {
			continue
		}
		for name, m := range sp.Members {
			fn, ok := m.(*ssa.Function)
			if !ok || !strings.HasPrefix(name, "Verif_") || fn.Signature.Params().Len() != 0 {
				continue
			}
			file := p.Prog.Fset.Position(fn.Pos()).Filename
			dir := file[:strings.LastIndex(file, "/")]
			hs := out[dir]
			if hs == nil {
				hs = &HarnessSet{PkgName: sp.Pkg.Name()}
				out[dir] = hs
			}
			hs.Names = append(hs.Names, name)
		}
	}
	for _, hs := range out {
		sort.Strings(hs.Names)
	}
	return out
}
