package interp

import (
	"fmt"
	"os"
	"go/types"
	"sort"
	"strings"

	"symgo/term"

	"golang.org/x/tools/go/ssa"
)

const vrtPkg = RepoModule + "/internal/vrt"

func (in *Interp) nondetName(label string) string {
	p := in.path
	if p.labelCnt == nil {
		p.labelCnt = map[string]int{}
	}
	p.labelCnt[label]++
	return fmt.Sprintf("%s#%d", label, p.labelCnt[label])
}

func (in *Interp) nondetBV(label, kind string, w uint8) *term.T {
	if in.path.initMode {
		panic(engineErr("vrt nondet during package initialisation"))
	}
	t := in.M.NewSym(in.nondetName(label), w)
	in.path.nondets = append(in.path.nondets, nondetRec{Label: label, Kind: kind, Terms: []*term.T{t}})
	return t
}

func (in *Interp) diagMap(v Value) map[string]any {
	s, ok := v.(Slice)
	if !ok || s.Obj == nil {
		return nil
	}
	out := map[string]any{}
	for i := 0; i+1 < s.Len; i += 2 {
		k := in.loadSlot(s.Obj, s.Off+i).(Iface)
		val := in.loadSlot(s.Obj, s.Off+i+1).(Iface)
		ks, ok := k.V.(Str)
		if !ok {
			continue
		}
		switch x := val.V.(type) {
		case *term.T:
			if x.IsConst() {
				if x.W == 0 {
					out[ks.S] = x.Val != 0
				} else {
					out[ks.S] = x.Val
				}
			} else {
				out[ks.S] = x
			}
		case Str:
			if x.Sym == nil {
				out[ks.S] = x.S
			} else {
				out[ks.S] = "<sym>"
			}
		default:
			out[ks.S] = fmt.Sprintf("<%T>", val.V)
		}
	}
	return out
}

func init() {
	reg := func(name string, f Intrinsic) { intrinsics[vrtPkg+"."+name] = f }

	reg("Symbolic", func(in *Interp, fr *frame, a []Value, c *ssa.CallCommon) Value { return in.M.True })
	reg("U8", func(in *Interp, fr *frame, a []Value, c *ssa.CallCommon) Value {
		return in.nondetBV(in.strArg(a[0]), "u8", 8)
	})
	reg("U32", func(in *Interp, fr *frame, a []Value, c *ssa.CallCommon) Value {
		return in.nondetBV(in.strArg(a[0]), "u32", 32)
	})
	reg("U64", func(in *Interp, fr *frame, a []Value, c *ssa.CallCommon) Value {
		return in.nondetBV(in.strArg(a[0]), "u64", 64)
	})
	reg("Bool", func(in *Interp, fr *frame, a []Value, c *ssa.CallCommon) Value {
		return in.nondetBV(in.strArg(a[0]), "bool", 0)
	})
	reg("Int", func(in *Interp, fr *frame, a []Value, c *ssa.CallCommon) Value {
		t := in.nondetBV(in.strArg(a[0]), "int", 64)
		lo, hi := a[1].(*term.T), a[2].(*term.T)
		in.assume(in.M.And(in.M.Sle(lo, t), in.M.Sle(t, hi)))
		return t
	})
	reg("Bytes", func(in *Interp, fr *frame, a []Value, c *ssa.CallCommon) Value {
		label := in.strArg(a[0])
		n := in.concInt(a[1].(*term.T), "bytes-n")
		base := in.nondetName(label)
		ts := make([]*term.T, n)
		for i := range ts {
			ts[i] = in.M.NewSym(fmt.Sprintf("%s[%d]", base, i), 8)
		}
		in.path.nondets = append(in.path.nondets, nondetRec{Label: label, Kind: "bytes", Terms: ts})
		o := in.newArrayObject(types.Typ[types.Uint8], n)
		for i, t := range ts {
			in.setSlot(o, i, t)
		}
		return Slice{Obj: o, Len: n, Cap: n, ES: 1}
	})
	reg("Choose", func(in *Interp, fr *frame, a []Value, c *ssa.CallCommon) Value {
		label := in.strArg(a[0])
		n := in.concInt(a[1].(*term.T), "choose-n")
		v := in.choose(n, label)
		in.path.nondets = append(in.path.nondets, nondetRec{Label: label, Kind: "choose", Conc: v})
		return in.intVal(v)
	})
	reg("Assume", func(in *Interp, fr *frame, a []Value, c *ssa.CallCommon) Value {
		in.assume(a[0].(*term.T))
		return nil
	})
	reg("Assert", func(in *Interp, fr *frame, a []Value, c *ssa.CallCommon) Value {
		in.assert(a[0].(*term.T), in.strArg(a[1]), in.diagMap(a[2]))
		return nil
	})
	reg("Fail", func(in *Interp, fr *frame, a []Value, c *ssa.CallCommon) Value {
		in.assert(in.M.False, in.strArg(a[0]), in.diagMap(a[1]))
		return nil
	})
	reg("Cover", func(in *Interp, fr *frame, a []Value, c *ssa.CallCommon) Value {
		p := in.path
		if p.covers == nil {
			p.covers = map[string]bool{}
		}
		p.covers[in.strArg(a[0])] = true
		return nil
	})
	reg("Note", func(in *Interp, fr *frame, a []Value, c *ssa.CallCommon) Value {
		in.path.notes = append(in.path.notes, in.strArg(a[0]))
		return nil
	})
	reg("Known", func(in *Interp, fr *frame, a []Value, c *ssa.CallCommon) Value {
		return in.M.Bool(in.Cfg.Known[in.strArg(a[0])])
	})
	reg("Param", func(in *Interp, fr *frame, a []Value, c *ssa.CallCommon) Value {
		name := in.strArg(a[0])
		if v, ok := in.Cfg.Params[name]; ok {
			return in.intVal(v)
		}
		return a[1]
	})
	reg("TempDir", func(in *Interp, fr *frame, a []Value, c *ssa.CallCommon) Value {
		in.fs.tmpN++
		d := fmt.Sprintf("/vfs/t%d", in.fs.tmpN)
		in.fs.dirs[d] = true
		return Str{S: d}
	})
	reg("CopyDir", func(in *Interp, fr *frame, a []Value, c *ssa.CallCommon) Value {
		src := clean(in.strArg(a[0]))
		in.fs.tmpN++
		dst := fmt.Sprintf("/vfs/c%d", in.fs.tmpN)
		for d := range in.fs.dirs {
			if d == src || strings.HasPrefix(d, src+"/") {
				in.fs.dirs[dst+d[len(src):]] = true
			}
		}
		var names []string
		for p := range in.fs.files {
			if strings.HasPrefix(p, src+"/") {
				names = append(names, p)
			}
		}
		sort.Strings(names)
		for _, p := range names {
			in.fs.nextIno++
			in.fs.files[dst+p[len(src):]] = &inode{id: in.fs.nextIno, data: in.fs.files[p].data}
		}
		return Str{S: dst}
	})
	reg("ListDir", func(in *Interp, fr *frame, a []Value, c *ssa.CallCommon) Value {
		names := in.listTree(in.strArg(a[0]))
		o := in.newArrayObject(types.Typ[types.String], len(names))
		for i, n := range names {
			in.setSlot(o, i, Str{S: n})
		}
		return Slice{Obj: o, Len: len(names), Cap: len(names), ES: 1}
	})
	reg("CrashBegin", func(in *Interp, fr *frame, a []Value, c *ssa.CallCommon) Value {
		in.crashBegin(in.strArg(a[0]))
		return nil
	})
	reg("CrashEnd", func(in *Interp, fr *frame, a []Value, c *ssa.CallCommon) Value {
		in.crashEnd()
		return nil
	})
	reg("CrashImage", func(in *Interp, fr *frame, a []Value, c *ssa.CallCommon) Value {
		fs := in.fs
		n := len(fs.winLog)
		if os.Getenv("SYMGO_DEBUG_CRASH") != "" && in.path.pos >= len(in.path.prefix) {
			for i, mu := range fs.winLog {
				fmt.Printf("crashlog %d kind=%d ino=%d path=%s path2=%s off=%d len=%d size=%d\n", i, mu.kind, mu.ino, mu.path, mu.path2, mu.off, len(mu.data), mu.size)
			}
		}
		k := in.choose(n+1, "crash-k")
		in.path.nondets = append(in.path.nondets, nondetRec{Label: "crash-k", Kind: "choose", Conc: k})
		t := 0
		if k < n && fs.winLog[k].kind == mWrite && fs.winLog[k].appendW && len(fs.winLog[k].data) > 1 && in.Cfg.Params["torn"] != 0 {
			t = in.choose(len(fs.winLog[k].data), "crash-t")
		}
		in.path.nondets = append(in.path.nondets, nondetRec{Label: "crash-t", Kind: "choose", Conc: t})
		kinds := []string{"create", "truncate", "write", "rename", "remove", "mkdir", "removeall"}
		desc := func(i int) string {
			if i < 0 || i >= n {
				return "end-of-window"
			}
			mu := fs.winLog[i]
			p := mu.path
			if p == "" {
				for name, ino := range fs.files {
					if ino.id == mu.ino {
						p = name
					}
				}
			}
			if j := strings.LastIndex(p, "/"); j >= 0 {
				p = p[j+1:]
			}
			return kinds[mu.kind] + ":" + p
		}
		in.path.notes = append(in.path.notes, fmt.Sprintf("crash after %s before %s (t=%d)", desc(k-1), desc(k), t))
		return Str{S: in.crashImage(k, t)}
	})
	reg("OpenFiles", func(in *Interp, fr *frame, a []Value, c *ssa.CallCommon) Value {
		return in.intVal(in.fs.openCount())
	})
	reg("MutCount", func(in *Interp, fr *frame, a []Value, c *ssa.CallCommon) Value {
		return in.intVal(in.fs.mutCount)
	})
	reg("DoubleCloses", func(in *Interp, fr *frame, a []Value, c *ssa.CallCommon) Value {
		return in.intVal(in.fs.doubleClose)
	})
	reg("Goroutines", func(in *Interp, fr *frame, a []Value, c *ssa.CallCommon) Value {
		n := 0
		for _, t := range in.threads {
			if t.state != tsDone {
				n++
			}
		}
		return in.intVal(n)
	})
	reg("Quiesce", func(in *Interp, fr *frame, a []Value, c *ssa.CallCommon) Value {
		// let every other thread run until it blocks or finishes
		me := in.cur
		for {
			any := false
			for _, t := range in.threads {
				if t != me && in.enabled(t) {
					any = true
				}
			}
			if !any {
				return nil
			}
			in.nextThread = nil
			me.state = tsBlocked
			me.waitOn = func() bool {
				for _, t := range in.threads {
					if t != me && in.enabled(t) {
						return false
					}
				}
				return true
			}
			me.what = "Quiesce"
			in.yield()
			me.state = tsRunnable
			me.waitOn = nil
		}
	})
	reg("FireTimers", func(in *Interp, fr *frame, a []Value, c *ssa.CallCommon) Value {
		n := 0
		for _, tm := range in.timers {
			if tm.armed && len(tm.ch.buf) == 0 {
				tm.ch.buf = append(tm.ch.buf, in.timeValue())
				if !tm.ticker {
					tm.armed = false
				}
				n++
			}
		}
		return in.intVal(n)
	})
	reg("HashUF", func(in *Interp, fr *frame, a []Value, c *ssa.CallCommon) Value {
		code := in.concretise(a[0].(*term.T), "hash-code")
		n := in.concInt(a[1].(*term.T), "hash-len")
		return in.newByteSlice(in.hashUF(code, n, in.sliceTermsRace(a[2].(Slice))))
	})
}

type hashApp struct {
	code uint64
	n    int
	in   []*term.T
	out  []*term.T
}

// hashUF models a hash as an uninterpreted function with functional congruence
// (Ackermann expansion against every earlier application on this path).
func (in *Interp) hashUF(code uint64, n int, data []*term.T) []*term.T {
	for _, h := range in.hashApps {
		if h.code == code && h.n == n && len(h.in) == len(data) {
			same := true
			for i := range data {
				if h.in[i] != data[i] {
					same = false
					break
				}
			}
			if same {
				return h.out
			}
		}
	}
	in.path.hashN++
	out := make([]*term.T, n)
	for i := range out {
		out[i] = in.M.NewSym(fmt.Sprintf("$hash%d_%d#%d[%d]", code, n, in.path.hashN, i), 8)
	}
	for _, h := range in.hashApps {
		if h.code == code && h.n == n && len(h.in) == len(data) {
			eqIn := in.bytesEqual(h.in, data)
			eqOut := in.bytesEqual(h.out, out)
			in.addPCQuiet(in.M.Implies(eqIn, eqOut))
		}
	}
	in.hashApps = append(in.hashApps, hashApp{code, n, data, out})
	return out
}

func init() {
	reg := func(name string, f Intrinsic) { intrinsics[vrtPkg+"."+name] = f }
	reg("Imp", func(in *Interp, fr *frame, a []Value, c *ssa.CallCommon) Value {
		return in.M.Implies(a[0].(*term.T), a[1].(*term.T))
	})
	reg("And", func(in *Interp, fr *frame, a []Value, c *ssa.CallCommon) Value {
		return in.M.And(a[0].(*term.T), a[1].(*term.T))
	})
	reg("Or", func(in *Interp, fr *frame, a []Value, c *ssa.CallCommon) Value {
		return in.M.Or(a[0].(*term.T), a[1].(*term.T))
	})
}

func init() {
	reg := func(name string, f Intrinsic) { intrinsics[vrtPkg+"."+name] = f }
	// SchedBegin/SchedEnd delimit the part of a harness whose interleavings are explored;
	// outside it threads run sequentially (a thread runs until it blocks).
	reg("SchedBegin", func(in *Interp, fr *frame, a []Value, c *ssa.CallCommon) Value {
		in.sched = in.Cfg.Sched
		return nil
	})
	reg("SchedEnd", func(in *Interp, fr *frame, a []Value, c *ssa.CallCommon) Value {
		in.sched = false
		return nil
	})
}
