package interp

import (
	"fmt"
	"go/constant"
	"go/types"
	"math"

	"symgo/term"

	"golang.org/x/tools/go/ssa"
)

// Value is one of:
//   *term.T   integers and booleans
//   Float     float64/float32
//   Str       string
//   Ptr       pointer
//   Slice     slice header
//   Struct    struct value (fields)
//   Array     array value (elements)
//   Iface     interface value
//   *Closure  function value
//   *MapObj   map
//   *ChanObj  channel
//   Tuple     multiple results
//   Native    engine model object
//   Poison    result of an unsupported operation during package init
type Value = any

type Float struct {
	V      float64
	Opaque bool
	ID     int
}

// Str is an immutable string. If Sym is nil the string is the concrete S.
type Str struct {
	S   string
	Sym []*term.T
}

type Ptr struct {
	Obj *Object
	Off int
}

type Slice struct {
	Obj *Object
	Off int // slot offset of element 0
	Len int
	Cap int
	ES  int // slots per element
}

type Struct []Value
type Array []Value
type Tuple []Value

type Iface struct {
	T types.Type // nil => nil interface
	V Value
}

type Closure struct {
	Fn   *ssa.Function
	Env  []Value
	Intr string // non-empty: engine-provided function value
}

type Native struct{ P any }

type Poison struct{ Why string }

// Object is a block of memory made of slots.
type Object struct {
	ID     int
	Typ    types.Type
	N      int
	cells  []Value
	sparse map[int]Value
	zero   []Value
	Frozen bool
	Native any
	acc    map[int]*accessInfo
	Global *ssa.Global
	site   string
}

const sparseThreshold = 2048

func (o *Object) get(i int) Value {
	if i < 0 || i >= o.N {
		panic(fmt.Sprintf("engine: object slot %d out of range %d", i, o.N))
	}
	if o.sparse != nil {
		if v, ok := o.sparse[i]; ok {
			return v
		}
		return o.zero[i%len(o.zero)]
	}
	if o.cells == nil {
		return o.zero[i%len(o.zero)]
	}
	v := o.cells[i]
	if v == nil {
		return o.zero[i%len(o.zero)]
	}
	return v
}

func (in *Interp) setSlot(o *Object, i int, v Value) {
	if i < 0 || i >= o.N {
		panic(fmt.Sprintf("engine: object slot %d out of range %d", i, o.N))
	}
	if o.Frozen {
		in.journal = append(in.journal, undoRec{o, i, o.get(i)})
	}
	if o.N > sparseThreshold {
		if o.sparse == nil {
			o.sparse = map[int]Value{}
		}
		o.sparse[i] = v
		return
	}
	if o.cells == nil {
		o.cells = make([]Value, o.N)
	}
	o.cells[i] = v
}

type undoRec struct {
	o *Object
	i int
	v Value
}

// ---- maps ----

type mapEntry struct {
	K, V    Value
	deleted bool
}

type MapObj struct {
	ID      int
	KT, VT  types.Type
	Ents    []mapEntry
	Frozen  bool
	acc     *accessInfo
	version int
}

// ---- type layout ----

type layout struct {
	slots  int
	fields []int // struct: slot offset per field
	elem   int   // array: slots per element
}

func (in *Interp) lay(t types.Type) *layout {
	if l, ok := in.layouts[t]; ok {
		return l
	}
	var l *layout
	switch u := t.Underlying().(type) {
	case *types.Struct:
		l = &layout{}
		off := 0
		for i := 0; i < u.NumFields(); i++ {
			l.fields = append(l.fields, off)
			off += in.lay(u.Field(i).Type()).slots
		}
		l.slots = off
	case *types.Array:
		e := in.lay(u.Elem()).slots
		l = &layout{slots: e * int(u.Len()), elem: e}
	case *types.Tuple:
		l = &layout{slots: u.Len()}
	default:
		l = &layout{slots: 1}
	}
	in.layouts[t] = l
	return l
}

func intWidth(b *types.Basic) (w uint8, signed bool) {
	switch b.Kind() {
	case types.Bool, types.UntypedBool:
		return 0, false
	case types.Int8:
		return 8, true
	case types.Uint8:
		return 8, false
	case types.Int16:
		return 16, true
	case types.Uint16:
		return 16, false
	case types.Int32, types.UntypedRune:
		return 32, true
	case types.Uint32:
		return 32, false
	case types.Int, types.Int64, types.UntypedInt:
		return 64, true
	case types.Uint, types.Uint64, types.Uintptr:
		return 64, false
	}
	return 255, false
}

// typeWidth returns (width, signed, ok) for integer/bool types.
func typeWidth(t types.Type) (uint8, bool, bool) {
	b, ok := t.Underlying().(*types.Basic)
	if !ok {
		return 0, false, false
	}
	w, s := intWidth(b)
	if w == 255 {
		return 0, false, false
	}
	return w, s, true
}

// zeroSlots returns the flattened zero value of t.
func (in *Interp) zeroSlots(t types.Type) []Value {
	if z, ok := in.zeros[t]; ok {
		return z
	}
	var z []Value
	switch u := t.Underlying().(type) {
	case *types.Struct:
		for i := 0; i < u.NumFields(); i++ {
			z = append(z, in.zeroSlots(u.Field(i).Type())...)
		}
	case *types.Array:
		e := in.zeroSlots(u.Elem())
		n := int(u.Len())
		for i := 0; i < n; i++ {
			z = append(z, e...)
		}
	default:
		z = []Value{in.zeroScalar(t)}
	}
	in.zeros[t] = z
	return z
}

func (in *Interp) zeroScalar(t types.Type) Value {
	switch u := t.Underlying().(type) {
	case *types.Basic:
		if w, _, ok := typeWidth(t); ok {
			return in.M.BV(0, w)
		}
		switch u.Kind() {
		case types.Float32, types.Float64, types.UntypedFloat:
			return Float{}
		case types.String, types.UntypedString:
			return Str{}
		case types.UnsafePointer:
			return Ptr{}
		case types.UntypedNil:
			return Ptr{}
		}
		panic(engineErr("zero of basic type %s", t))
	case *types.Pointer:
		return Ptr{}
	case *types.Slice:
		return Slice{ES: in.lay(u.Elem()).slots}
	case *types.Interface:
		return Iface{}
	case *types.Signature:
		return (*Closure)(nil)
	case *types.Map:
		return (*MapObj)(nil)
	case *types.Chan:
		return (*ChanObj)(nil)
	case *types.TypeParam:
		panic(engineErr("zero of type parameter %s", t))
	}
	panic(engineErr("zero of type %s", t))
}

// zeroValue returns the (unflattened) zero value of t.
func (in *Interp) zeroValue(t types.Type) Value {
	switch u := t.Underlying().(type) {
	case *types.Struct:
		s := make(Struct, u.NumFields())
		for i := range s {
			s[i] = in.zeroValue(u.Field(i).Type())
		}
		return s
	case *types.Array:
		a := make(Array, u.Len())
		for i := range a {
			a[i] = in.zeroValue(u.Elem())
		}
		return a
	case *types.Tuple:
		tu := make(Tuple, u.Len())
		for i := range tu {
			tu[i] = in.zeroValue(u.At(i).Type())
		}
		return tu
	}
	return in.zeroScalar(t)
}

// newObject allocates memory for one value of type t.
func (in *Interp) newObject(t types.Type) *Object {
	in.nextObj++
	l := in.lay(t)
	o := &Object{ID: in.nextObj, Typ: t, N: l.slots}
	if a, ok := t.Underlying().(*types.Array); ok {
		o.zero = in.zeroSlots(a.Elem())
	} else {
		o.zero = in.zeroSlots(t)
	}
	if o.N == 0 {
		o.N = 0
	}
	if len(o.zero) == 0 {
		o.zero = []Value{nil}
	}
	if in.initPhase {
		o.Frozen = true
	}
	return o
}

// newArrayObject allocates n elements of type elem.
func (in *Interp) newArrayObject(elem types.Type, n int) *Object {
	in.nextObj++
	es := in.lay(elem).slots
	o := &Object{ID: in.nextObj, Typ: elem, N: es * n, zero: in.zeroSlots(elem)}
	if len(o.zero) == 0 {
		o.zero = []Value{nil}
	}
	if in.initPhase {
		o.Frozen = true
	}
	return o
}

// load reads a value of type t at p.
func (in *Interp) load(p Ptr, t types.Type) Value {
	if p.Obj == nil {
		panic(goPanic{msg: "runtime error: invalid memory address or nil pointer dereference"})
	}
	switch u := t.Underlying().(type) {
	case *types.Struct:
		l := in.lay(t)
		s := make(Struct, u.NumFields())
		for i := range s {
			s[i] = in.load(Ptr{p.Obj, p.Off + l.fields[i]}, u.Field(i).Type())
		}
		return s
	case *types.Array:
		l := in.lay(t)
		a := make(Array, u.Len())
		for i := range a {
			a[i] = in.load(Ptr{p.Obj, p.Off + i*l.elem}, u.Elem())
		}
		return a
	}
	if in.race != nil {
		in.race.access(in, p.Obj, p.Off, false)
	}
	return p.Obj.get(p.Off)
}

func (in *Interp) store(p Ptr, t types.Type, v Value) {
	if p.Obj == nil {
		panic(goPanic{msg: "runtime error: invalid memory address or nil pointer dereference"})
	}
	switch u := t.Underlying().(type) {
	case *types.Struct:
		l := in.lay(t)
		s := v.(Struct)
		for i := range s {
			in.store(Ptr{p.Obj, p.Off + l.fields[i]}, u.Field(i).Type(), s[i])
		}
		return
	case *types.Array:
		l := in.lay(t)
		a := v.(Array)
		for i := range a {
			in.store(Ptr{p.Obj, p.Off + i*l.elem}, u.Elem(), a[i])
		}
		return
	}
	if in.race != nil {
		in.race.access(in, p.Obj, p.Off, true)
	}
	in.setSlot(p.Obj, p.Off, v)
}

// ---- constants ----

func (in *Interp) constValue(c *ssa.Const) Value {
	if v, ok := in.consts[c]; ok {
		return v
	}
	v := in.mkConst(c)
	in.consts[c] = v
	return v
}

func (in *Interp) mkConst(c *ssa.Const) Value {
	t := c.Type()
	if c.Value == nil {
		return in.zeroValue(t)
	}
	if b, ok := t.Underlying().(*types.Basic); ok {
		if w, _, ok := typeWidth(t); ok {
			if w == 0 {
				return in.M.Bool(constant.BoolVal(c.Value))
			}
			if i, exact := constant.Int64Val(constant.ToInt(c.Value)); exact {
				return in.M.BV(uint64(i), w)
			}
			u, _ := constant.Uint64Val(constant.ToInt(c.Value))
			return in.M.BV(u, w)
		}
		switch b.Kind() {
		case types.Float32, types.Float64, types.UntypedFloat:
			f, _ := constant.Float64Val(c.Value)
			return Float{V: f}
		case types.String, types.UntypedString:
			if c.Value.Kind() == constant.String {
				return Str{S: constant.StringVal(c.Value)}
			}
			// conversion of an integer constant to string
			i, _ := constant.Int64Val(c.Value)
			return Str{S: string(rune(i))}
		}
	}
	panic(engineErr("constant of type %s", t))
}

// ---- helpers ----

func (in *Interp) bv(v uint64, w uint8) *term.T { return in.M.BV(v, w) }
func (in *Interp) intVal(v int) *term.T        { return in.M.BV(uint64(int64(v)), 64) }

func isConcrete(v Value) bool {
	switch x := v.(type) {
	case *term.T:
		return x.IsConst()
	case Str:
		return x.Sym == nil
	case Float:
		return !x.Opaque
	}
	return true
}

func (s Str) Len() int {
	if s.Sym != nil {
		return len(s.Sym)
	}
	return len(s.S)
}

func (in *Interp) strByte(s Str, i int) *term.T {
	if s.Sym != nil {
		return s.Sym[i]
	}
	return in.M.BV(uint64(s.S[i]), 8)
}

func (in *Interp) strFromTerms(ts []*term.T) Str {
	allc := true
	for _, t := range ts {
		if !t.IsConst() {
			allc = false
			break
		}
	}
	if allc {
		b := make([]byte, len(ts))
		for i, t := range ts {
			b[i] = byte(t.Val)
		}
		return Str{S: string(b)}
	}
	cp := make([]*term.T, len(ts))
	copy(cp, ts)
	return Str{Sym: cp}
}

// sliceTerms returns the byte terms of a []byte slice.
func (in *Interp) sliceTerms(s Slice) []*term.T {
	out := make([]*term.T, s.Len)
	for i := 0; i < s.Len; i++ {
		out[i] = in.loadSlot(s.Obj, s.Off+i).(*term.T)
	}
	return out
}

func (in *Interp) loadSlot(o *Object, i int) Value {
	if in.race != nil {
		in.race.access(in, o, i, false)
	}
	return o.get(i)
}

func (in *Interp) storeSlot(o *Object, i int, v Value) {
	if in.race != nil {
		in.race.access(in, o, i, true)
	}
	in.setSlot(o, i, v)
}

// newByteSlice builds a fresh []byte from terms.
func (in *Interp) newByteSlice(ts []*term.T) Slice {
	o := in.newArrayObject(types.Typ[types.Uint8], len(ts))
	for i, t := range ts {
		if !(t.IsConst() && t.Val == 0) {
			in.setSlot(o, i, t)
		}
	}
	return Slice{Obj: o, Len: len(ts), Cap: len(ts), ES: 1}
}

func (in *Interp) concreteBytes(s Slice) ([]byte, bool) {
	out := make([]byte, s.Len)
	for i := 0; i < s.Len; i++ {
		t := s.Obj.get(s.Off + i).(*term.T)
		if !t.IsConst() {
			return nil, false
		}
		out[i] = byte(t.Val)
	}
	return out, true
}

func floatBits(f float64) uint64 { return math.Float64bits(f) }

// equal returns a boolean term for a == b where both have static type t.
func (in *Interp) equal(a, b Value, t types.Type) *term.T {
	switch x := a.(type) {
	case *term.T:
		return in.M.Eq(x, b.(*term.T))
	case Float:
		y := b.(Float)
		if x.Opaque || y.Opaque {
			return in.freshBool("fcmp")
		}
		return in.M.Bool(x.V == y.V)
	case Str:
		return in.strEqual(x, b.(Str))
	case Ptr:
		y := b.(Ptr)
		return in.M.Bool(x.Obj == y.Obj && (x.Obj == nil || x.Off == y.Off))
	case Slice:
		// only comparison with nil is legal
		y := b.(Slice)
		if y.Obj == nil && y.Len == 0 {
			return in.M.Bool(x.Obj == nil)
		}
		return in.M.Bool(y.Obj == nil && x.Obj == nil)
	case *Closure:
		y, _ := b.(*Closure)
		return in.M.Bool((x == nil) == (y == nil))
	case *MapObj:
		y, _ := b.(*MapObj)
		return in.M.Bool(x == y)
	case *ChanObj:
		y, _ := b.(*ChanObj)
		return in.M.Bool(x == y)
	case Iface:
		y := b.(Iface)
		if x.T == nil || y.T == nil {
			return in.M.Bool(x.T == nil && y.T == nil)
		}
		_, xn := x.T.(*nativeType)
		_, yn := y.T.(*nativeType)
		if xn || yn {
			if x.T != y.T {
				return in.M.False
			}
			return in.equal(x.V, y.V, nil)
		}
		if !types.Identical(x.T, y.T) {
			return in.M.False
		}
		return in.equal(x.V, y.V, x.T)
	case Struct:
		y := b.(Struct)
		st := t.Underlying().(*types.Struct)
		r := in.M.True
		for i := range x {
			r = in.M.And(r, in.equal(x[i], y[i], st.Field(i).Type()))
		}
		return r
	case Array:
		y := b.(Array)
		et := t.Underlying().(*types.Array).Elem()
		r := in.M.True
		for i := range x {
			r = in.M.And(r, in.equal(x[i], y[i], et))
		}
		return r
	case Native:
		y, ok := b.(Native)
		return in.M.Bool(ok && x.P == y.P)
	case nil:
		return in.M.Bool(b == nil)
	}
	panic(engineErr("equal: unsupported value %T", a))
}

func (in *Interp) strEqual(x, y Str) *term.T {
	if x.Sym == nil && y.Sym == nil {
		return in.M.Bool(x.S == y.S)
	}
	if x.Len() != y.Len() {
		return in.M.False
	}
	r := in.M.True
	for i := 0; i < x.Len(); i++ {
		r = in.M.And(r, in.M.Eq(in.strByte(x, i), in.strByte(y, i)))
	}
	return r
}

func (in *Interp) freshBool(label string) *term.T {
	in.path.fresh++
	return in.M.NewSym(fmt.Sprintf("$%s#%d", label, in.path.fresh), 0)
}

func (in *Interp) freshBV(label string, w uint8) *term.T {
	in.path.fresh++
	return in.M.NewSym(fmt.Sprintf("$%s#%d", label, in.path.fresh), w)
}
