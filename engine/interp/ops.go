package interp

import (
	"fmt"
	"go/token"
	"go/types"
	"math"
	"strings"
	"unicode/utf8"

	"symgo/term"

	"golang.org/x/tools/go/ssa"
)

// nativeType is the dynamic type of engine model objects stored in interfaces.
type nativeType struct{ name string }

func (n *nativeType) Underlying() types.Type { return n }
func (n *nativeType) String() string         { return "engine." + n.name }

var (
	ntErr      = &nativeType{"error"}
	ntFileInfo = &nativeType{"fileInfo"}
	ntCtx      = &nativeType{"ctx"}
	ntDirEntry = &nativeType{"dirEntry"}
)

func nativeImplements(nt *nativeType, iface types.Type) bool {
	it := iface.Underlying().(*types.Interface)
	var have []string
	switch nt {
	case ntErr:
		have = []string{"Error", "Unwrap", "Is", "Timeout", "Temporary"}
	case ntFileInfo:
		have = []string{"Size", "Name", "IsDir", "Mode", "ModTime", "Sys"}
	case ntCtx:
		have = []string{"Err", "Done", "Deadline", "Value"}
	}
	for i := 0; i < it.NumMethods(); i++ {
		ok := false
		for _, h := range have {
			if h == it.Method(i).Name() {
				ok = true
			}
		}
		if !ok {
			return false
		}
	}
	return true
}

func (in *Interp) opaqueFloat() Float {
	in.floatID++
	return Float{Opaque: true, ID: in.floatID}
}

func (in *Interp) binop(op token.Token, a, b Value, ta, tb types.Type) Value {
	switch x := a.(type) {
	case *term.T:
		y, ok := b.(*term.T)
		if !ok {
			break
		}
		return in.intBinop(op, x, y, ta, tb)
	case Float:
		y := b.(Float)
		if x.Opaque || y.Opaque {
			switch op {
			case token.EQL, token.NEQ, token.LSS, token.LEQ, token.GTR, token.GEQ:
				return in.freshBool("fcmp")
			}
			return in.opaqueFloat()
		}
		switch op {
		case token.ADD:
			return Float{V: x.V + y.V}
		case token.SUB:
			return Float{V: x.V - y.V}
		case token.MUL:
			return Float{V: x.V * y.V}
		case token.QUO:
			return Float{V: x.V / y.V}
		case token.EQL:
			return in.M.Bool(x.V == y.V)
		case token.NEQ:
			return in.M.Bool(x.V != y.V)
		case token.LSS:
			return in.M.Bool(x.V < y.V)
		case token.LEQ:
			return in.M.Bool(x.V <= y.V)
		case token.GTR:
			return in.M.Bool(x.V > y.V)
		case token.GEQ:
			return in.M.Bool(x.V >= y.V)
		}
	case Str:
		y := b.(Str)
		switch op {
		case token.ADD:
			if x.Sym == nil && y.Sym == nil {
				return Str{S: x.S + y.S}
			}
			ts := make([]*term.T, 0, x.Len()+y.Len())
			for i := 0; i < x.Len(); i++ {
				ts = append(ts, in.strByte(x, i))
			}
			for i := 0; i < y.Len(); i++ {
				ts = append(ts, in.strByte(y, i))
			}
			return in.strFromTerms(ts)
		case token.EQL:
			return in.strEqual(x, y)
		case token.NEQ:
			return in.M.Not(in.strEqual(x, y))
		case token.LSS, token.LEQ, token.GTR, token.GEQ:
			c := in.compareBytes(in.strTerms(x), in.strTerms(y)) // -1,0,1 as 64-bit term
			zero := in.M.BV(0, 64)
			switch op {
			case token.LSS:
				return in.M.Slt(c, zero)
			case token.LEQ:
				return in.M.Sle(c, zero)
			case token.GTR:
				return in.M.Slt(zero, c)
			default:
				return in.M.Sle(zero, c)
			}
		}
	}
	switch op {
	case token.EQL:
		return in.equal(a, b, ta)
	case token.NEQ:
		return in.M.Not(in.equal(a, b, ta))
	}
	panic(engineErr("unsupported binop %s on %T,%T", op, a, b))
}

func (in *Interp) strTerms(s Str) []*term.T {
	out := make([]*term.T, s.Len())
	for i := range out {
		out[i] = in.strByte(s, i)
	}
	return out
}

func (in *Interp) intBinop(op token.Token, x, y *term.T, ta, tb types.Type) Value {
	M := in.M
	_, signed, _ := typeWidth(ta)
	switch op {
	case token.ADD:
		return M.Add(x, y)
	case token.SUB:
		return M.Sub(x, y)
	case token.MUL:
		return M.Mul(x, y)
	case token.QUO, token.REM:
		if y.IsConst() {
			if y.Val == 0 {
				panic(goPanic{msg: "runtime error: integer divide by zero"})
			}
		} else if in.branch(M.Eq(y, M.BV(0, y.W))) {
			panic(goPanic{msg: "runtime error: integer divide by zero"})
		}
		if op == token.QUO {
			if signed {
				return M.SDiv(x, y)
			}
			return M.UDiv(x, y)
		}
		if signed {
			return M.SRem(x, y)
		}
		return M.URem(x, y)
	case token.AND:
		if x.W == 0 {
			return M.And(x, y)
		}
		return M.BvAnd(x, y)
	case token.OR:
		if x.W == 0 {
			return M.Or(x, y)
		}
		return M.BvOr(x, y)
	case token.XOR:
		if x.W == 0 {
			return M.Not(M.Eq(x, y))
		}
		return M.BvXor(x, y)
	case token.AND_NOT:
		return M.BvAnd(x, M.BvNot(y))
	case token.SHL, token.SHR:
		// shift count may have a different width and may be signed
		_, ysigned, _ := typeWidth(tb)
		if ysigned {
			if y.IsConst() {
				if y.SignedVal() < 0 {
					panic(goPanic{msg: "runtime error: negative shift amount"})
				}
			} else if in.branch(M.Slt(y, M.BV(0, y.W))) {
				panic(goPanic{msg: "runtime error: negative shift amount"})
			}
		}
		var sh *term.T
		if y.W > x.W {
			// large counts saturate: if y >= x.W the result is 0 (or sign fill)
			big := M.Not(M.Ult(y, M.BV(uint64(x.W), y.W)))
			shc := M.Ite(big, M.BV(uint64(x.W), x.W), M.Extract(y, x.W-1, 0))
			sh = shc
		} else {
			sh = M.Zext(y, x.W)
		}
		if op == token.SHL {
			return M.Shl(x, sh)
		}
		if signed {
			return M.AShr(x, sh)
		}
		return M.LShr(x, sh)
	case token.EQL:
		return M.Eq(x, y)
	case token.NEQ:
		return M.Not(M.Eq(x, y))
	case token.LSS:
		if signed {
			return M.Slt(x, y)
		}
		return M.Ult(x, y)
	case token.LEQ:
		if signed {
			return M.Sle(x, y)
		}
		return M.Ule(x, y)
	case token.GTR:
		if signed {
			return M.Slt(y, x)
		}
		return M.Ult(y, x)
	case token.GEQ:
		if signed {
			return M.Sle(y, x)
		}
		return M.Ule(y, x)
	}
	panic(engineErr("unsupported int binop %s", op))
}

func (in *Interp) convert(v Value, from, to types.Type) Value {
	fu, tu := from.Underlying(), to.Underlying()
	switch x := v.(type) {
	case *term.T:
		if w, _, ok := typeWidth(to); ok {
			_, fs, _ := typeWidth(from)
			return in.M.Resize(x, w, fs)
		}
		if tb, ok := tu.(*types.Basic); ok {
			switch tb.Kind() {
			case types.Float32, types.Float64:
				if x.IsConst() {
					_, fs, _ := typeWidth(from)
					if fs {
						return Float{V: float64(x.SignedVal())}
					}
					return Float{V: float64(x.Val)}
				}
				return in.opaqueFloat()
			case types.String:
				// integer -> string (rune)
				if x.IsConst() {
					return Str{S: string(rune(x.SignedVal()))}
				}
				panic(engineErr("symbolic rune to string conversion"))
			case types.UnsafePointer:
				panic(engineErr("unsafe.Pointer conversion"))
			}
		}
	case Float:
		if w, s, ok := typeWidth(to); ok {
			if x.Opaque {
				return in.freshBV("f2i", w)
			}
			if s {
				return in.M.BV(uint64(int64(x.V)), w)
			}
			return in.M.BV(uint64(x.V), w)
		}
		if tb, ok := tu.(*types.Basic); ok && (tb.Kind() == types.Float32 || tb.Kind() == types.Float64) {
			if tb.Kind() == types.Float32 && !x.Opaque {
				return Float{V: float64(float32(x.V))}
			}
			return x
		}
	case Str:
		if ts, ok := tu.(*types.Slice); ok {
			eb, _ := ts.Elem().Underlying().(*types.Basic)
			if eb != nil && eb.Kind() == types.Uint8 {
				return in.newByteSlice(in.strTerms(x))
			}
			if eb != nil && eb.Kind() == types.Int32 && x.Sym == nil {
				rs := []rune(x.S)
				o := in.newArrayObject(ts.Elem(), len(rs))
				for i, r := range rs {
					in.setSlot(o, i, in.M.BV(uint64(r), 32))
				}
				return Slice{Obj: o, Len: len(rs), Cap: len(rs), ES: 1}
			}
		}
		if _, ok := tu.(*types.Basic); ok {
			return x
		}
	case Slice:
		if tb, ok := tu.(*types.Basic); ok && tb.Kind() == types.String {
			fe := fu.(*types.Slice).Elem().Underlying().(*types.Basic)
			if fe.Kind() == types.Uint8 {
				if x.Obj == nil {
					return Str{}
				}
				return in.strFromTerms(in.sliceTermsRace(x))
			}
			if fe.Kind() == types.Int32 {
				var sb strings.Builder
				for i := 0; i < x.Len; i++ {
					t := in.loadSlot(x.Obj, x.Off+i).(*term.T)
					if !t.IsConst() {
						panic(engineErr("symbolic []rune to string"))
					}
					sb.WriteRune(rune(t.SignedVal()))
				}
				return Str{S: sb.String()}
			}
		}
		if _, ok := tu.(*types.Slice); ok {
			return x
		}
	case Ptr:
		// pointer <-> unsafe.Pointer
		return x
	}
	panic(engineErr("unsupported conversion %s -> %s (%T)", from, to, v))
}

func (in *Interp) sliceTermsRace(s Slice) []*term.T {
	out := make([]*term.T, s.Len)
	for i := 0; i < s.Len; i++ {
		out[i] = in.loadSlot(s.Obj, s.Off+i).(*term.T)
	}
	return out
}

// ---- builtins ----

func (in *Interp) builtin(fr *frame, name string, args []Value, call *ssa.CallCommon) Value {
	switch name {
	case "len":
		switch x := args[0].(type) {
		case Slice:
			return in.intVal(x.Len)
		case Str:
			return in.intVal(x.Len())
		case *MapObj:
			if x == nil {
				return in.intVal(0)
			}
			return in.intVal(in.mapLen(x))
		case *ChanObj:
			if x == nil {
				return in.intVal(0)
			}
			return in.intVal(len(x.buf))
		case Array:
			return in.intVal(len(x))
		case Ptr:
			at := call.Args[0].Type().Underlying().(*types.Pointer).Elem().Underlying().(*types.Array)
			return in.intVal(int(at.Len()))
		}
	case "cap":
		switch x := args[0].(type) {
		case Slice:
			return in.intVal(x.Cap)
		case *ChanObj:
			if x == nil {
				return in.intVal(0)
			}
			return in.intVal(x.cap)
		case Array:
			return in.intVal(len(x))
		}
	case "append":
		return in.appendOp(args[0].(Slice), args[1], call)
	case "copy":
		dst := args[0].(Slice)
		switch src := args[1].(type) {
		case Slice:
			n := dst.Len
			if src.Len < n {
				n = src.Len
			}
			in.copySlots(dst.Obj, dst.Off, src.Obj, src.Off, n*dst.ES)
			return in.intVal(n)
		case Str:
			n := dst.Len
			if src.Len() < n {
				n = src.Len()
			}
			for i := 0; i < n; i++ {
				in.storeSlot(dst.Obj, dst.Off+i, in.strByte(src, i))
			}
			return in.intVal(n)
		}
	case "delete":
		m := args[0].(*MapObj)
		if m != nil {
			in.mapDelete(m, args[1])
		}
		return nil
	case "close":
		in.chanClose(args[0].(*ChanObj))
		return nil
	case "panic":
		panic(goPanic{val: args[0], msg: in.panicString(args[0])})
	case "recover":
		return in.doRecover(fr.caller)
	case "print", "println":
		return nil
	case "min", "max":
		r := args[0]
		t := call.Args[0].Type()
		for _, a := range args[1:] {
			x, y := r.(*term.T), a.(*term.T)
			var lt *term.T
			if _, s, _ := typeWidth(t); s {
				lt = in.M.Slt(y, x)
			} else {
				lt = in.M.Ult(y, x)
			}
			if name == "max" {
				lt = in.M.Not(in.M.Or(lt, in.M.Eq(x, y)))
			}
			r = in.M.Ite(lt, y, x)
		}
		return r
	case "clear":
		switch x := args[0].(type) {
		case *MapObj:
			if x != nil {
				for i := range x.Ents {
					if !x.Ents[i].deleted {
						in.mapDeleteAt(x, i)
					}
				}
			}
		case Slice:
			for i := 0; i < x.Len*x.ES; i++ {
				in.storeSlot(x.Obj, x.Off+i, x.Obj.zero[(x.Off+i)%len(x.Obj.zero)])
			}
		}
		return nil
	}
	panic(engineErr("unsupported builtin %s(%T...)", name, args[0]))
}

func (in *Interp) copySlots(dst *Object, doff int, src *Object, soff int, n int) {
	if n == 0 {
		return
	}
	if dst == src && doff > soff {
		for i := n - 1; i >= 0; i-- {
			in.storeSlot(dst, doff+i, in.loadSlot(src, soff+i))
		}
		return
	}
	for i := 0; i < n; i++ {
		in.storeSlot(dst, doff+i, in.loadSlot(src, soff+i))
	}
}

func (in *Interp) appendOp(s Slice, more Value, call *ssa.CallCommon) Value {
	st := call.Args[0].Type().Underlying().(*types.Slice)
	es := in.lay(st.Elem()).slots
	if s.ES == 0 {
		s.ES = es
	}
	var n int
	var srcSlice Slice
	var srcStr Str
	isStr := false
	switch m := more.(type) {
	case Slice:
		n = m.Len
		srcSlice = m
	case Str:
		n = m.Len()
		srcStr = m
		isStr = true
	default:
		panic(engineErr("append of %T", more))
	}
	if n == 0 {
		return s
	}
	res := s
	if s.Len+n > s.Cap {
		// grow (Go's growth: double, roughly; any capacity >= needed is legal)
		nc := s.Cap * 2
		if nc < s.Len+n {
			nc = s.Len + n
		}
		if nc < 4 {
			nc = 4
		}
		o := in.newArrayObject(st.Elem(), nc)
		if s.Obj != nil {
			in.copySlots(o, 0, s.Obj, s.Off, s.Len*es)
		}
		res = Slice{Obj: o, Off: 0, Len: s.Len, Cap: nc, ES: es}
	}
	if isStr {
		for i := 0; i < n; i++ {
			in.storeSlot(res.Obj, res.Off+(res.Len+i)*es, in.strByte(srcStr, i))
		}
	} else {
		in.copySlots(res.Obj, res.Off+res.Len*es, srcSlice.Obj, srcSlice.Off, n*es)
	}
	res.Len += n
	return res
}

// concInt concretises an integer term to a Go int (forking if needed).
func (in *Interp) concInt(t *term.T, what string) int {
	if t.IsConst() {
		return int(t.SignedVal())
	}
	v := in.concretise(t, what)
	return int(int64(v<<(64-uint(t.W))) >> (64 - uint(t.W)))
}

// ---- maps ----

type mapUndo struct {
	m    *MapObj
	ents []mapEntry
}

func (in *Interp) newMap(mt *types.Map) *MapObj {
	in.nextObj++
	return &MapObj{ID: in.nextObj, KT: mt.Key(), VT: mt.Elem(), Frozen: in.initPhase}
}

func (in *Interp) mapTouch(m *MapObj, write bool) {
	if write && m.Frozen && !in.initPhase {
		cp := make([]mapEntry, len(m.Ents))
		copy(cp, m.Ents)
		in.mapJournal = append(in.mapJournal, mapUndo{m, cp})
	}
	if in.race != nil {
		in.race.accessMap(in, m, write)
	}
}

func (in *Interp) mapLen(m *MapObj) int {
	in.mapTouch(m, false)
	n := 0
	for _, e := range m.Ents {
		if !e.deleted {
			n++
		}
	}
	return n
}

func (in *Interp) mapFind(m *MapObj, k Value) int {
	conc := valueConcrete(k)
	for i := range m.Ents {
		e := &m.Ents[i]
		if e.deleted {
			continue
		}
		if conc && valueConcrete(e.K) {
			if in.equal(e.K, k, m.KT).IsTrue() {
				return i
			}
			continue
		}
		eq := in.equal(e.K, k, m.KT)
		if eq.IsConst() {
			if eq.Val != 0 {
				return i
			}
			continue
		}
		if in.branch(eq) {
			return i
		}
	}
	return -1
}

func valueConcrete(v Value) bool {
	switch x := v.(type) {
	case *term.T:
		return x.IsConst()
	case Str:
		return x.Sym == nil
	case Struct:
		for _, f := range x {
			if !valueConcrete(f) {
				return false
			}
		}
	case Array:
		for _, f := range x {
			if !valueConcrete(f) {
				return false
			}
		}
	case Iface:
		return x.V == nil || valueConcrete(x.V)
	}
	return true
}

func (in *Interp) mapGet(m *MapObj, k Value) (Value, bool) {
	in.mapTouch(m, false)
	i := in.mapFind(m, k)
	if i < 0 {
		return nil, false
	}
	return m.Ents[i].V, true
}

func (in *Interp) mapSet(m *MapObj, k, v Value) {
	in.mapTouch(m, true)
	i := in.mapFind(m, k)
	if i >= 0 {
		m.Ents[i].V = v
		return
	}
	m.Ents = append(m.Ents, mapEntry{K: k, V: v})
	m.version++
}

func (in *Interp) mapDelete(m *MapObj, k Value) {
	in.mapTouch(m, true)
	i := in.mapFind(m, k)
	if i >= 0 {
		in.mapDeleteAt(m, i)
	}
}

func (in *Interp) mapDeleteAt(m *MapObj, i int) {
	m.Ents[i].deleted = true
	m.Ents[i].V = nil
}

// ---- range ----

type rangeIter struct {
	m   *MapObj
	s   Str
	pos int
	str bool
}

func (in *Interp) rangeStart(v Value) Value {
	switch x := v.(type) {
	case *MapObj:
		if x != nil {
			in.mapTouch(x, false)
		}
		return Native{&rangeIter{m: x}}
	case Str:
		return Native{&rangeIter{s: x, str: true}}
	}
	panic(engineErr("range over %T", v))
}

func (in *Interp) rangeNext(it *rangeIter, x *ssa.Next) Value {
	if it.str {
		if it.s.Sym != nil {
			panic(engineErr("range over symbolic string"))
		}
		if it.pos >= len(it.s.S) {
			return Tuple{in.M.False, in.intVal(0), in.M.BV(0, 32)}
		}
		r, n := utf8.DecodeRuneInString(it.s.S[it.pos:])
		p := it.pos
		it.pos += n
		return Tuple{in.M.True, in.intVal(p), in.M.BV(uint64(r), 32)}
	}
	m := it.m
	tt := x.Type().(*types.Tuple)
	if m != nil {
		in.mapTouch(m, false)
		for it.pos < len(m.Ents) {
			e := m.Ents[it.pos]
			it.pos++
			if e.deleted {
				continue
			}
			return Tuple{in.M.True, e.K, e.V}
		}
	}
	var zk, zv Value
	if !isInvalid(tt.At(1).Type()) {
		zk = in.zeroValue(tt.At(1).Type())
	}
	if !isInvalid(tt.At(2).Type()) {
		zv = in.zeroValue(tt.At(2).Type())
	}
	return Tuple{in.M.False, zk, zv}
}

func isInvalid(t types.Type) bool {
	b, ok := t.(*types.Basic)
	return ok && b.Kind() == types.Invalid
}

// compareBytes returns a 64-bit term: -1, 0, +1 like bytes.Compare.
func (in *Interp) compareBytes(a, b []*term.T) *term.T {
	M := in.M
	n := len(a)
	if len(b) < n {
		n = len(b)
	}
	var tail *term.T
	switch {
	case len(a) < len(b):
		tail = M.BV(^uint64(0), 64)
	case len(a) > len(b):
		tail = M.BV(1, 64)
	default:
		tail = M.BV(0, 64)
	}
	r := tail
	for i := n - 1; i >= 0; i-- {
		lt := M.Ult(a[i], b[i])
		eq := M.Eq(a[i], b[i])
		r = M.Ite(eq, r, M.Ite(lt, M.BV(^uint64(0), 64), M.BV(1, 64)))
	}
	return r
}

func (in *Interp) bytesEqual(a, b []*term.T) *term.T {
	if len(a) != len(b) {
		return in.M.False
	}
	r := in.M.True
	for i := range a {
		r = in.M.And(r, in.M.Eq(a[i], b[i]))
	}
	return r
}

func fmtFloat(f Float) string {
	if f.Opaque {
		return "<float>"
	}
	return fmt.Sprint(f.V)
}

var _ = math.Ceil
