package interp

import (
	"fmt"
	"sort"
	"strings"
)

type accessInfo struct {
	wT, wC int
	wSite  string
	reads  map[int]int
	rSites map[int]string
}

type raceMon struct {
	seen map[string]bool
}

func newRaceMon() *raceMon { return &raceMon{seen: map[string]bool{}} }

func (in *Interp) site() string {
	if in.curIns == nil {
		return "?"
	}
	fn := in.curIns.Parent()
	pos := in.curIns.Pos()
	if !pos.IsValid() && fn != nil {
		// look backwards for a positioned instruction in the same block
		b := in.curIns.Block()
		for i := len(b.Instrs) - 1; i >= 0; i-- {
			if b.Instrs[i] == in.curIns {
				for j := i; j >= 0; j-- {
					if b.Instrs[j].Pos().IsValid() {
						pos = b.Instrs[j].Pos()
						break
					}
				}
				break
			}
		}
	}
	name := "?"
	if fn != nil {
		name = fn.String()
	}
	if pos.IsValid() {
		p := in.P.Prog.Fset.Position(pos)
		f := p.Filename
		if i := strings.Index(f, "/repo/"); i >= 0 {
			f = f[i+6:]
		}
		return fmt.Sprintf("%s (%s:%d)", name, f, p.Line)
	}
	return name
}

func (r *raceMon) check(in *Interp, a *accessInfo, write bool, what string) {
	t := in.cur
	me := t.id
	report := func(otherSite string, otherWrite bool) {
		s1, s2 := otherSite, in.site()
		k1, k2 := "R", "R"
		if otherWrite {
			k1 = "W"
		}
		if write {
			k2 = "W"
		}
		pair := []string{k1 + " " + s1, k2 + " " + s2}
		sort.Strings(pair)
		label := "race: " + pair[0] + " <-> " + pair[1]
		if r.seen[label] {
			return
		}
		r.seen[label] = true
		in.violationNow("race", label, what)
	}
	if a.wT >= 0 && a.wT != me && t.vc[a.wT] < a.wC {
		report(a.wSite, true)
	}
	if write {
		for tid, c := range a.reads {
			if tid != me && t.vc[tid] < c {
				report(a.rSites[tid], false)
			}
		}
	}
	c := t.vc[me]
	if write {
		a.wT, a.wC, a.wSite = me, c, in.site()
		a.reads = nil
		a.rSites = nil
	} else {
		if a.reads == nil {
			a.reads = map[int]int{}
			a.rSites = map[int]string{}
		}
		a.reads[me] = c
		a.rSites[me] = in.site()
	}
}

func (r *raceMon) access(in *Interp, o *Object, slot int, write bool) {
	if in.cur == nil || in.path.initMode || o.Frozen {
		return
	}
	if o.acc == nil {
		o.acc = map[int]*accessInfo{}
	}
	a := o.acc[slot]
	if a == nil {
		a = &accessInfo{wT: -1}
		o.acc[slot] = a
	}
	r.check(in, a, write, "memory")
}

func (r *raceMon) accessMap(in *Interp, m *MapObj, write bool) {
	if in.cur == nil || in.path.initMode {
		return
	}
	if m.acc == nil {
		m.acc = &accessInfo{wT: -1}
	}
	r.check(in, m.acc, write, "map")
}
