package interp

import (
	"fmt"
	"sort"
	"strings"
)

type accessInfo struct {
	wT, wC int
	wSite  string
	reads  map[int]int
	rSites map[int]string
	// lockset detector: last write and last read per thread with the locks held
	lw *lsAccess
	lr map[int]*lsAccess
}

type lsAccess struct {
	t     int
	wc    int // weak clock of the accessing thread at the access
	locks map[Ptr]int
	site  string
}

type raceMon struct {
	seen map[string]bool
	weak map[any]vclock
}

func newRaceMon() *raceMon { return &raceMon{seen: map[string]bool{}, weak: map[any]vclock{}} }

// protected: some lock is held by both accesses, in write mode by every writing access.
func lsProtected(a map[Ptr]int, aw bool, b map[Ptr]int, bw bool) bool {
	for l, ma := range a {
		mb, ok := b[l]
		if !ok {
			continue
		}
		if aw && ma != 2 || bw && mb != 2 {
			continue
		}
		return true
	}
	return false
}

// lockset check: conflicting accesses by different threads that are not ordered by
// fork/channel/Once/WaitGroup edges and share no suitable lock are a predicted race: some
// schedule runs them without happens-before even if this one orders them through an
// unrelated critical section.
func (r *raceMon) lockset(in *Interp, a *accessInfo, write bool, what string) {
	t := in.cur
	cur := &lsAccess{t: t.id, wc: t.wvc[t.id], locks: map[Ptr]int{}, site: ""}
	for l, m := range t.held {
		cur.locks[l] = m
	}
	check := func(prev *lsAccess, prevWrite bool) {
		if prev == nil || prev.t == t.id || t.wvc[prev.t] >= prev.wc {
			return
		}
		if lsProtected(prev.locks, prevWrite, cur.locks, write) {
			return
		}
		if cur.site == "" {
			cur.site = in.site()
		}
		k1, k2 := "R", "R"
		if prevWrite {
			k1 = "W"
		}
		if write {
			k2 = "W"
		}
		pair := []string{k1 + " " + prev.site, k2 + " " + cur.site}
		sort.Strings(pair)
		label := "race: " + pair[0] + " <-> " + pair[1]
		if r.seen[label] {
			return
		}
		r.seen[label] = true
		in.violationNow("race", label, "lockset")
	}
	check(a.lw, true)
	if write {
		for _, pr := range a.lr {
			check(pr, false)
		}
	}
	if cur.site == "" {
		cur.site = in.site()
	}
	if write {
		a.lw = cur
		a.lr = nil
	} else {
		if a.lr == nil {
			a.lr = map[int]*lsAccess{}
		}
		a.lr[t.id] = cur
	}
}

func (in *Interp) site() string {
	if in.curIns == nil {
		return "?"
	}
	fn := in.curIns.Parent()
	pos := in.curIns.Pos()
	if !pos.IsValid() && fn != nil {
		// look backwards for a positioned instruction in the same block
		b := in.curIns.Block()
		for i := len(b.Instrs) - 1; i >= 0; i-- {
			if b.Instrs[i] == in.curIns {
				for j := i; j >= 0; j-- {
					if b.Instrs[j].Pos().IsValid() {
						pos = b.Instrs[j].Pos()
						break
					}
				}
				break
			}
		}
	}
	name := "?"
	if fn != nil {
		name = fn.String()
	}
	if pos.IsValid() {
		p := in.P.Prog.Fset.Position(pos)
		f := p.Filename
		if i := strings.Index(f, "/repo/"); i >= 0 {
			f = f[i+6:]
		}
		return fmt.Sprintf("%s (%s:%d)", name, f, p.Line)
	}
	return name
}

func (r *raceMon) check(in *Interp, a *accessInfo, write bool, what string) {
	t := in.cur
	me := t.id
	report := func(otherSite string, otherWrite bool) {
		s1, s2 := otherSite, in.site()
		k1, k2 := "R", "R"
		if otherWrite {
			k1 = "W"
		}
		if write {
			k2 = "W"
		}
		pair := []string{k1 + " " + s1, k2 + " " + s2}
		sort.Strings(pair)
		label := "race: " + pair[0] + " <-> " + pair[1]
		if r.seen[label] {
			return
		}
		r.seen[label] = true
		in.violationNow("race", label, what)
	}
	if a.wT >= 0 && a.wT != me && t.vc[a.wT] < a.wC {
		report(a.wSite, true)
	}
	if write {
		for tid, c := range a.reads {
			if tid != me && t.vc[tid] < c {
				report(a.rSites[tid], false)
			}
		}
	}
	c := t.vc[me]
	if write {
		a.wT, a.wC, a.wSite = me, c, in.site()
		a.reads = nil
		a.rSites = nil
	} else {
		if a.reads == nil {
			a.reads = map[int]int{}
			a.rSites = map[int]string{}
		}
		a.reads[me] = c
		a.rSites[me] = in.site()
	}
}

func (r *raceMon) access(in *Interp, o *Object, slot int, write bool) {
	if in.cur == nil || in.path.initMode || o.Frozen {
		return
	}
	if o.acc == nil {
		o.acc = map[int]*accessInfo{}
	}
	a := o.acc[slot]
	if a == nil {
		a = &accessInfo{wT: -1}
		o.acc[slot] = a
	}
	r.check(in, a, write, "memory")
	if in.Cfg.Params["lockset"] != 0 {
		// predictive lockset detector: experimental, off by default (publication of immutable
		// data through a mutex makes it report many pairs that are in fact ordered)
		r.lockset(in, a, write, "memory")
	}
}

func (r *raceMon) accessMap(in *Interp, m *MapObj, write bool) {
	if in.cur == nil || in.path.initMode {
		return
	}
	if m.acc == nil {
		m.acc = &accessInfo{wT: -1}
	}
	r.check(in, m.acc, write, "map")
	if in.Cfg.Params["lockset"] != 0 {
		r.lockset(in, m.acc, write, "map")
	}
}
