package interp

import (
	"fmt"
	"os"
	"time"
	"sort"
	"strings"

	"symgo/solver"
	"symgo/term"
)

// Config holds run parameters.
type Config struct {
	SolverTimeoutMs int
	MaxSteps        int64
	ConcCap         int
	Workers         int
	Tier            string
	Params          map[string]int // harness parameters (vrt.Param)
	MaxPaths        int64
	MaxWall         time.Duration
	Sched           bool
	Preempt         int
	Race            bool
	Diff            bool
	Verbose         bool
	Known           map[string]bool
}

var debugChoose = os.Getenv("SYMGO_DEBUG_CHOOSE") != ""

type decKind uint8

const (
	dBranch decKind = iota
	dConc
	dChoose
)

type decision struct {
	kind decKind
	val  uint64
}

type nondetRec struct {
	Label string
	Kind  string // u8,u32,u64,int,bool,bytes,choose
	Terms []*term.T
	Conc  int // for choose
}

type Violation struct {
	Label   string
	Diag    map[string]any
	Nondet  []replayVal
	Kind    string // assert | panic | deadlock | race
	Msg     string
	Prefix   []decision
	Harness  string
	Schedule []SchedEv
}

type replayVal struct {
	Label string `json:"label"`
	Kind  string `json:"kind"`
	V     uint64 `json:"v"`
	Bytes string `json:"bytes,omitempty"`
}

// Path is the per-path state.
type Path struct {
	prefix   []decision
	pos      int
	trace    []decision
	pc       []*term.T
	pcSet    map[*term.T]bool
	model    term.Model
	eval     *term.Evaluator
	fresh    int
	nondets  []nondetRec
	labelCnt map[string]int
	initMode bool

	forks      []workItem
	incon      []string
	covers     map[string]bool
	obligs     int
	discharged int
	trivial    int
	violations []Violation
	feasQ      int
	branches   int
	sched      []int
	preempts   int
	assumeFail bool
	notes      []string
	timeNow    *term.T
	clockN     int
	schedLog   []SchedEv
	timerFires int
	hashN      int
}

type workItem struct {
	prefix []decision
	model  term.Model
}

func (p *Path) inconclusive(why string) {
	p.incon = append(p.incon, why)
}

func (in *Interp) addPC(c *term.T) {
	p := in.path
	if c.IsTrue() || p.pcSet[c] {
		return
	}
	if p.pcSet == nil {
		p.pcSet = map[*term.T]bool{}
	}
	p.pcSet[c] = true
	p.pc = append(p.pc, c)
}

func (in *Interp) modelEval(t *term.T) (uint64, bool) {
	p := in.path
	if p.model == nil {
		return 0, false
	}
	if p.eval == nil {
		p.eval = term.NewEvaluator(p.model)
	}
	return p.eval.Eval(t), true
}

func (in *Interp) mergeModel(m term.Model) {
	p := in.path
	if p.model == nil {
		return
	}
	for k, v := range m {
		p.model[k] = v
	}
	p.eval = nil
}

func (in *Interp) dropModel() {
	in.path.model = nil
	in.path.eval = nil
}

// ensureModel makes sure the path has a model of its pc.
func (in *Interp) ensureModel() bool {
	p := in.path
	if p.model != nil {
		return true
	}
	res, m := in.S.CheckAll(p.pc, true)
	if res != solver.Sat {
		if res == solver.Unknown {
			p.inconclusive("solver unknown while re-establishing the path model")
		}
		return false
	}
	p.model = m
	p.eval = nil
	return true
}

func (in *Interp) pushFork(extra decision, model term.Model) {
	p := in.path
	pre := make([]decision, len(p.trace)+1)
	copy(pre, p.trace)
	pre[len(p.trace)] = extra
	p.forks = append(p.forks, workItem{prefix: pre, model: model})
}

func copyModel(m term.Model) term.Model {
	if m == nil {
		return nil
	}
	c := make(term.Model, len(m))
	for k, v := range m {
		c[k] = v
	}
	return c
}

// branch decides a symbolic condition; returns the side this path follows.
func (in *Interp) branch(c *term.T) bool {
	p := in.path
	if c.IsConst() {
		return c.Val != 0
	}
	if p.initMode {
		panic(engineErr("symbolic branch during package initialisation"))
	}
	p.branches++
	// replay
	if p.pos < len(p.prefix) {
		d := p.prefix[p.pos]
		if d.kind != dBranch {
			panic(engineErr("nondeterministic re-execution: expected decision kind %d, got branch", d.kind))
		}
		p.pos++
		p.trace = append(p.trace, d)
		taken := d.val&1 != 0
		if d.val&2 != 0 { // constraint was added
			if taken {
				in.addPC(c)
			} else {
				in.addPC(in.M.Not(c))
			}
		}
		return taken
	}
	notc := in.M.Not(c)
	var canT, canF bool
	var modT, modF term.Model // slice models to merge
	if v, ok := in.modelEval(c); ok {
		if v != 0 {
			canT = true
			r, m := in.check(notc, true)
			canF, modF = in.interpretFeas(r, m)
		} else {
			canF = true
			r, m := in.check(c, true)
			canT, modT = in.interpretFeas(r, m)
		}
	} else {
		r, m := in.check(c, true)
		canT, modT = in.interpretFeas(r, m)
		r, m = in.check(notc, true)
		canF, modF = in.interpretFeas(r, m)
	}
	base := p.model
	switch {
	case canT && canF:
		// follow true, fork false
		var fm term.Model
		if base != nil {
			if modF != nil {
				fm = fillModel(modF, base)
			} else {
				fm = copyModel(base) // base satisfies the false side
			}
		}
		in.pushFork(decision{dBranch, 2}, fm)
		p.trace = append(p.trace, decision{dBranch, 3})
		in.addPC(c)
		if base != nil && modT != nil {
			in.mergeModel(modT)
		}
		return true
	case canT:
		p.trace = append(p.trace, decision{dBranch, 1})
		return true
	case canF:
		p.trace = append(p.trace, decision{dBranch, 0})
		return false
	}
	// neither side feasible: pc itself infeasible (can happen after unknowns)
	p.inconclusive("branch with no feasible side")
	panic(pathEnd{"infeasible"})
}

func evalIs(in *Interp, c *term.T) bool {
	v, ok := in.modelEval(c)
	return ok && v != 0
}

func (in *Interp) check(goal *term.T, wantModel bool) (solver.Result, term.Model) {
	in.path.feasQ++
	return in.S.Check(in.path.pc, goal, wantModel)
}

// interpretFeas maps a solver result to (feasible, model). Unknown keeps the branch.
func (in *Interp) interpretFeas(r solver.Result, m term.Model) (bool, term.Model) {
	switch r {
	case solver.Sat:
		return true, m
	case solver.Unsat:
		return false, nil
	}
	in.path.inconclusive("solver unknown on feasibility query (branch kept)")
	in.dropModel()
	return true, nil
}

// concretise returns a concrete value for t, forking over all feasible values.
func (in *Interp) concretise(t *term.T, what string) uint64 {
	p := in.path
	if t.IsConst() {
		return t.Val
	}
	if p.initMode {
		panic(engineErr("symbolic concretisation during package initialisation"))
	}
	if p.pos < len(p.prefix) {
		d := p.prefix[p.pos]
		if d.kind != dConc {
			panic(engineErr("nondeterministic re-execution: expected decision kind %d, got concretise(%s)", d.kind, what))
		}
		p.pos++
		p.trace = append(p.trace, d)
		v := d.val >> 1
		if d.val&1 != 0 {
			in.addPC(in.M.Eq(t, in.M.BV(v, t.W)))
		}
		return v
	}
	// enumerate feasible values
	var vals []uint64
	var models []term.Model
	excl := in.M.True
	for {
		var v uint64
		var sm term.Model
		if len(vals) == 0 {
			if mv, ok := in.modelEval(t); ok {
				v = mv
			} else {
				r, m := in.check(in.M.True, true)
				_ = r
				if m == nil {
					in.path.inconclusive("no model for concretisation of " + what)
					panic(pathEnd{"infeasible"})
				}
				p.model = m
				p.eval = nil
				v, _ = in.modelEval(t)
			}
		} else {
			r, m := in.check(excl, true)
			if r == solver.Unsat {
				break
			}
			if r == solver.Unknown {
				in.path.inconclusive("solver unknown while enumerating values of " + what)
				break
			}
			ev := term.NewEvaluator(fillModel(m, p.model))
			v = ev.Eval(t)
			sm = m
		}
		vals = append(vals, v)
		models = append(models, sm)
		excl = in.M.And(excl, in.M.Not(in.M.Eq(t, in.M.BV(v, t.W))))
		if len(vals) > in.Cfg.ConcCap {
			in.path.inconclusive(fmt.Sprintf("concretisation cap (%d) exceeded for %s at %s", in.Cfg.ConcCap, what, in.callSite()))
			break
		}
	}
	if len(vals) == 1 {
		p.trace = append(p.trace, decision{dConc, vals[0] << 1})
		return vals[0]
	}
	if vals[0] >= 1<<62 {
		panic(engineErr("concretised value too large for decision encoding"))
	}
	for i := len(vals) - 1; i >= 1; i-- {
		var fm term.Model
		if p.model != nil && models[i] != nil {
			fm = copyModel(p.model)
			for k, v := range models[i] {
				fm[k] = v
			}
		}
		in.pushFork(decision{dConc, vals[i]<<1 | 1}, fm)
	}
	p.trace = append(p.trace, decision{dConc, vals[0]<<1 | 1})
	in.addPC(in.M.Eq(t, in.M.BV(vals[0], t.W)))
	return vals[0]
}

func fillModel(m, base term.Model) term.Model {
	out := make(term.Model, len(m)+len(base))
	for k, v := range base {
		out[k] = v
	}
	for k, v := range m {
		out[k] = v
	}
	return out
}

// choose is a structural n-way choice.
func (in *Interp) choose(n int, label string) int {
	p := in.path
	if n <= 1 {
		return 0
	}
	if p.pos < len(p.prefix) {
		d := p.prefix[p.pos]
		if d.kind != dChoose {
			panic(engineErr("nondeterministic re-execution: expected decision kind %d, got choose(%s)", d.kind, label))
		}
		p.pos++
		p.trace = append(p.trace, d)
		return int(d.val)
	}
	for i := n - 1; i >= 1; i-- {
		in.pushFork(decision{dChoose, uint64(i)}, copyModel(p.model))
	}
	p.trace = append(p.trace, decision{dChoose, 0})
	if debugChoose {
		fmt.Printf("choose %s n=%d at decision %d\n", label, n, len(p.trace))
	}
	return 0
}

// assume adds a constraint; ends the path if it is infeasible.
func (in *Interp) assume(c *term.T) {
	if c.IsTrue() {
		return
	}
	if c.IsFalse() {
		in.path.assumeFail = true
		panic(pathEnd{"assume"})
	}
	if !in.branchAssume(c) {
		in.path.assumeFail = true
		panic(pathEnd{"assume"})
	}
}

// branchAssume: like branch but only the true side is kept (no fork).
func (in *Interp) branchAssume(c *term.T) bool {
	p := in.path
	if p.pos < len(p.prefix) {
		d := p.prefix[p.pos]
		if d.kind != dBranch {
			panic(engineErr("nondeterministic re-execution at assume"))
		}
		p.pos++
		p.trace = append(p.trace, d)
		in.addPC(c)
		return true
	}
	if v, ok := in.modelEval(c); ok && v != 0 {
		p.trace = append(p.trace, decision{dBranch, 3})
		in.addPC(c)
		return true
	}
	r, m := in.check(c, true)
	switch r {
	case solver.Unsat:
		return false
	case solver.Unknown:
		p.inconclusive("solver unknown on assume")
		in.dropModel()
	default:
		if p.model == nil {
			p.model = term.Model{}
		}
		in.mergeModel(m)
	}
	p.trace = append(p.trace, decision{dBranch, 3})
	in.addPC(c)
	return true
}

// assert checks cond under the pc; records a Violation with a full model if it can fail.
func (in *Interp) assert(cond *term.T, label string, diag map[string]any) {
	p := in.path
	p.obligs++
	if cond.IsTrue() {
		p.discharged++
		p.trivial++
		return
	}
	neg := in.M.Not(cond)
	var r solver.Result
	var m term.Model
	if cond.IsFalse() {
		r = solver.Sat
	} else {
		r, m = in.check(neg, true)
	}
	switch r {
	case solver.Unsat:
		p.discharged++
		return
	case solver.Unknown:
		p.inconclusive("solver unknown on assertion " + label)
		return
	}
	// violated: build a complete model
	full := in.fullModel(neg, m)
	if full == nil {
		p.inconclusive("could not build a complete model for violated assertion " + label)
		return
	}
	in.recordViolation("assert", label, "", diag, full)
	// continue on the side where the assertion holds, if feasible
	if cond.IsFalse() {
		panic(pathEnd{"assert-false"})
	}
	if !in.branchAssume(cond) {
		panic(pathEnd{"assert-always-fails"})
	}
}

// fullModel returns an assignment of every symbol satisfying pc ∧ extra.
func (in *Interp) fullModel(extra *term.T, sliceModel term.Model) term.Model {
	p := in.path
	if p.model != nil && sliceModel != nil {
		return fillModel(sliceModel, p.model)
	}
	cs := append(append([]*term.T{}, p.pc...), extra)
	r, m := in.S.CheckAll(cs, true)
	if r != solver.Sat {
		return nil
	}
	return m
}

func (in *Interp) recordViolation(kind, label, msg string, diag map[string]any, model term.Model) {
	p := in.path
	ev := term.NewEvaluator(model)
	var vals []replayVal
	for _, nd := range p.nondets {
		rv := replayVal{Label: nd.Label, Kind: nd.Kind}
		switch nd.Kind {
		case "choose":
			rv.V = uint64(nd.Conc)
		case "bytes":
			var sb strings.Builder
			for _, t := range nd.Terms {
				fmt.Fprintf(&sb, "%02x", ev.Eval(t))
			}
			rv.Bytes = sb.String()
			rv.V = uint64(len(nd.Terms))
		default:
			rv.V = ev.Eval(nd.Terms[0])
		}
		vals = append(vals, rv)
	}
	cd := map[string]any{}
	for k, v := range diag {
		switch x := v.(type) {
		case *term.T:
			cd[k] = ev.Eval(x)
		default:
			cd[k] = x
		}
	}
	tr := make([]decision, len(p.trace))
	copy(tr, p.trace)
	if len(p.notes) > 0 {
		cd["notes"] = strings.Join(p.notes, ",")
	}
	var sl []SchedEv
	if len(p.schedLog) > 0 {
		sl = append(sl, p.schedLog...)
	}
	p.violations = append(p.violations, Violation{Label: label, Diag: cd, Nondet: vals, Kind: kind, Msg: msg, Prefix: tr, Schedule: sl})
}

func sortedKeys(m map[string]bool) []string {
	out := make([]string, 0, len(m))
	for k := range m {
		out = append(out, k)
	}
	sort.Strings(out)
	return out
}
