package interp

import (
	"fmt"
	"strings"
	"go/types"

	"symgo/term"

	"golang.org/x/tools/go/ssa"
)

type threadState int

const (
	tsRunnable threadState = iota
	tsBlocked
	tsDone
)

type Thread struct {
	id     int
	name   string
	resume chan struct{}
	state  threadState
	waitOn func() bool
	what   string
	killed bool
	vc     vclock
	wvc    vclock        // happens-before without mutex edges (fork, channel, Once, WaitGroup)
	held   map[Ptr]int   // locks held: 1 = read mode, 2 = write mode
	ops    int
	lastLog int
}

type evKind int

const (
	evYield evKind = iota
	evDone
	evAbort
)

type schedEvent struct {
	t     *Thread
	kind  evKind
	abort any
}

type vclock map[int]int

func (v vclock) copy() vclock {
	c := make(vclock, len(v)+1)
	for k, x := range v {
		c[k] = x
	}
	return c
}

func (v vclock) join(o vclock) {
	for k, x := range o {
		if v[k] < x {
			v[k] = x
		}
	}
}

type mutexState struct {
	locked  bool
	readers int
	vc      vclock
	rvc     vclock
}

type onceState struct {
	done    bool
	running bool
	vc      vclock
}

type wgState struct {
	n  int
	vc vclock
}

type ChanObj struct {
	id      int
	cap     int
	buf     []Value
	closed  bool
	vc      vclock
	recvW   int
	timer   *timerObj
}

type timerObj struct {
	ch      *ChanObj
	armed   bool
	ticker  bool
	fired   int
	stopped bool
}

func (in *Interp) newChan(n int) *ChanObj {
	in.nextObj++
	return &ChanObj{id: in.nextObj, cap: n, vc: vclock{}}
}

// ---- spawn / yield ----

func (in *Interp) spawn(fv Value, args []Value, fr *frame, call *ssa.CallCommon) {
	in.visible("go")
	t := &Thread{id: len(in.threads), resume: make(chan struct{}), state: tsRunnable, lastLog: -1}
	if c, ok := fv.(*Closure); ok && c != nil && c.Fn != nil {
		t.name = c.Fn.String()
	}
	if in.cur != nil {
		t.vc = in.cur.vc.copy()
		in.cur.vc[in.cur.id]++
		t.wvc = in.cur.wvc.copy()
		in.cur.wvc[in.cur.id]++
	} else {
		t.vc = vclock{}
		t.wvc = vclock{}
	}
	t.vc[t.id] = 1
	t.wvc[t.id] = 1
	t.held = map[Ptr]int{}
	in.threads = append(in.threads, t)
	go in.threadBody(t, func() { in.callValue(fv, args, nil, call) })
}

func (in *Interp) threadBody(t *Thread, f func()) {
	<-t.resume
	defer func() {
		r := recover()
		switch x := r.(type) {
		case nil:
			in.toSched <- schedEvent{t: t, kind: evDone}
		case threadKilled:
			in.toSched <- schedEvent{t: t, kind: evDone}
		default:
			_ = x
			in.toSched <- schedEvent{t: t, kind: evAbort, abort: r}
		}
	}()
	if t.killed {
		panic(threadKilled{})
	}
	f()
}

func (in *Interp) yield() {
	t := in.cur
	in.toSched <- schedEvent{t: t, kind: evYield}
	<-t.resume
	if t.killed {
		panic(threadKilled{})
	}
}

func (in *Interp) blockUntil(cond func() bool, what string) {
	if cond() {
		return
	}
	t := in.cur
	if in.path.initMode {
		panic(engineErr("blocking operation during package initialisation: %s", what))
	}
	// the operation announced by visible() does not execute now: take its log entry
	// back and log it again when the thread resumes
	relog := ""
	if in.sched && t.lastLog >= 0 && t.lastLog == len(in.path.schedLog)-1 && in.path.schedLog[t.lastLog].T == t.id {
		relog = in.path.schedLog[t.lastLog].Kind
		in.path.schedLog = in.path.schedLog[:t.lastLog]
		t.lastLog = -1
	}
	t.state = tsBlocked
	t.waitOn = cond
	t.what = what
	in.yield()
	t.state = tsRunnable
	t.waitOn = nil
	if relog != "" {
		in.logOp(relog)
	}
}

func (in *Interp) enabled(t *Thread) bool {
	switch t.state {
	case tsRunnable:
		return true
	case tsBlocked:
		return t.waitOn != nil && t.waitOn()
	}
	return false
}

// SchedEv is one executed visible operation (or timer firing) of a schedule.
type SchedEv struct {
	T    int    `json:"t"`    // thread id (creation order, main = 0); -1 = timer firing
	Kind string `json:"kind"`
	Pos  string `json:"pos,omitempty"`
	N    int    `json:"n,omitempty"` // timer index for timer firings
}

func (in *Interp) logOp(kind string) {
	t := in.cur
	in.path.schedLog = append(in.path.schedLog, SchedEv{T: t.id, Kind: kind, Pos: in.callSite()})
	t.lastLog = len(in.path.schedLog) - 1
}

// callSite returns file:line of the innermost instruction being executed.
func (in *Interp) callSite() string {
	if in.curIns == nil {
		return ""
	}
	pos := in.curIns.Pos()
	if !pos.IsValid() {
		return ""
	}
	p := in.P.Prog.Fset.Position(pos)
	f := p.Filename
	if i := strings.LastIndex(f, "/"); i >= 0 {
		f = f[i+1:]
	}
	return fmt.Sprintf("%s:%d", f, p.Line)
}

// visible marks a scheduling point (scheduler mode only).
func (in *Interp) visible(kind string) {
	if !in.sched || in.cur == nil || in.path.initMode {
		return
	}
	if len(kind) > 3 && kind[:3] == "fs:" && in.Cfg.Params["fsvisible"] == 0 {
		return
	}
	t := in.cur
	t.ops++
	in.schedDecision(kind)
	// the operation is about to execute on this thread
	in.logOp(kind)
}

func (in *Interp) schedDecision(kind string) {
	t := in.cur
	if in.path.preempts >= in.Cfg.Preempt {
		return
	}
	var others []*Thread
	for _, o := range in.threads {
		if o != t && in.enabled(o) {
			others = append(others, o)
		}
	}
	nTimer := in.fireableTimers()
	if len(others) == 0 && len(nTimer) == 0 {
		return
	}
	c := in.choose(1+len(others)+len(nTimer), "sched:"+kind)
	if c == 0 {
		return
	}
	in.path.preempts++
	if c <= len(others) {
		in.nextThread = others[c-1]
		in.yield()
		return
	}
	// fire a timer, then continue (a timer firing is not a thread switch by itself)
	in.fireTimer(nTimer[c-1-len(others)])
}

func (in *Interp) fireableTimers() []*timerObj {
	if !in.sched || in.path.timerFires >= in.Cfg.Params["ticks"] {
		return nil
	}
	var out []*timerObj
	for _, tm := range in.timers {
		if tm.armed && len(tm.ch.buf) == 0 {
			out = append(out, tm)
		}
	}
	return out
}

func (in *Interp) fireTimer(tm *timerObj) {
	in.path.timerFires++
	for i, x := range in.timers {
		if x == tm {
			in.path.schedLog = append(in.path.schedLog, SchedEv{T: -1, Kind: "timer", N: i})
		}
	}
	tm.ch.buf = append(tm.ch.buf, in.timeValue())
	tm.fired++
	if !tm.ticker {
		tm.armed = false
	}
}

// pickNext selects the next thread to run after the current one yielded/blocked/finished.
func (in *Interp) pickNext() *Thread {
	if in.nextThread != nil {
		n := in.nextThread
		in.nextThread = nil
		return n
	}
	for {
		var en []*Thread
		for _, o := range in.threads {
			if in.enabled(o) {
				en = append(en, o)
			}
		}
		if len(en) == 0 {
			// maybe a timer can fire to unblock someone
			tms := in.fireableTimers()
			if len(tms) == 0 {
				return nil
			}
			// fire the first one whose firing enables a thread; in scheduler mode choose
			c := 0
			if len(tms) > 1 {
				c = in.chooseSched(len(tms), "timer")
			}
			in.fireTimer(tms[c])
			continue
		}
		if len(en) == 1 {
			return en[0]
		}
		if !in.sched {
			// sequential mode: keep the current thread if possible, else lowest id
			for _, o := range en {
				if o == in.cur {
					return o
				}
			}
			return en[0]
		}
		c := in.chooseSched(len(en), "pick")
		return en[c]
	}
}

// chooseSched makes a structural choice from the scheduler goroutine.
func (in *Interp) chooseSched(n int, label string) int {
	return in.choose(n, "sched:"+label)
}

// ---- sync primitives ----

func (in *Interp) mutex(p Ptr) *mutexState {
	if p.Obj == nil {
		panic(goPanic{msg: "runtime error: invalid memory address or nil pointer dereference (nil mutex)"})
	}
	m, ok := in.mutexes[p]
	if !ok {
		m = &mutexState{vc: vclock{}, rvc: vclock{}}
		in.mutexes[p] = m
	}
	return m
}

func (in *Interp) acquire(v vclock) {
	if in.cur != nil && in.race != nil {
		in.cur.vc.join(v)
	}
}

func (in *Interp) release(v vclock) {
	if in.cur != nil && in.race != nil {
		v.join(in.cur.vc)
		in.cur.vc[in.cur.id]++
	}
}

// weak edges: every synchronisation except mutexes (used by the lockset detector)
func (in *Interp) acquireW(o any) {
	if in.cur != nil && in.race != nil {
		if v := in.race.weak[o]; v != nil {
			in.cur.wvc.join(v)
		}
	}
}

func (in *Interp) releaseW(o any) {
	if in.cur != nil && in.race != nil {
		v := in.race.weak[o]
		if v == nil {
			v = vclock{}
			in.race.weak[o] = v
		}
		v.join(in.cur.wvc)
		in.cur.wvc[in.cur.id]++
	}
}

func (in *Interp) hold(p Ptr, mode int) {
	if in.cur != nil && in.cur.held != nil {
		if mode == 0 {
			delete(in.cur.held, p)
		} else {
			in.cur.held[p] = mode
		}
	}
}

func (in *Interp) mutexLock(p Ptr) {
	m := in.mutex(p)
	in.visible("lock")
	in.blockUntil(func() bool { return !m.locked && m.readers == 0 }, "Mutex.Lock")
	m.locked = true
	in.acquire(m.vc)
	in.acquire(m.rvc)
	in.hold(p, 2)
}

func (in *Interp) mutexTryLock(p Ptr) bool {
	m := in.mutex(p)
	in.visible("trylock")
	if m.locked || m.readers > 0 {
		return false
	}
	m.locked = true
	in.acquire(m.vc)
	in.hold(p, 2)
	return true
}

func (in *Interp) mutexUnlock(p Ptr) {
	m := in.mutex(p)
	if !m.locked {
		panic(goPanic{msg: "fatal error: sync: unlock of unlocked mutex"})
	}
	in.release(m.vc)
	m.locked = false
	in.hold(p, 0)
}

func (in *Interp) mutexRLock(p Ptr) {
	m := in.mutex(p)
	in.visible("rlock")
	in.blockUntil(func() bool { return !m.locked }, "RWMutex.RLock")
	m.readers++
	in.acquire(m.vc)
	in.hold(p, 1)
}

func (in *Interp) mutexRUnlock(p Ptr) {
	m := in.mutex(p)
	if m.readers <= 0 {
		panic(goPanic{msg: "fatal error: sync: RUnlock of unlocked RWMutex"})
	}
	in.release(m.rvc)
	m.readers--
	in.hold(p, 0)
}

func (in *Interp) onceDo(p Ptr, f Value, fr *frame, call *ssa.CallCommon) {
	o, ok := in.onces[p]
	if !ok {
		o = &onceState{vc: vclock{}}
		in.onces[p] = o
	}
	in.visible("once")
	if o.done {
		in.acquire(o.vc)
		in.acquireW(o)
		return
	}
	if o.running {
		in.blockUntil(func() bool { return o.done }, "Once.Do")
		in.acquire(o.vc)
		in.acquireW(o)
		return
	}
	o.running = true
	defer func() {
		o.done = true
		o.running = false
		in.release(o.vc)
		in.releaseW(o)
	}()
	in.callValue(f, nil, fr, call)
}

func (in *Interp) wg(p Ptr) *wgState {
	w, ok := in.wgs[p]
	if !ok {
		w = &wgState{vc: vclock{}}
		in.wgs[p] = w
	}
	return w
}

// ---- channels ----

func (in *Interp) chanSend(c *ChanObj, v Value) {
	in.visible("send")
	if c == nil {
		in.blockUntil(func() bool { return false }, "send on nil channel")
	}
	if c.closed {
		panic(goPanic{msg: "send on closed channel"})
	}
	if c.cap > 0 {
		in.blockUntil(func() bool { return len(c.buf) < c.cap || c.closed }, "chan send")
	} else {
		in.blockUntil(func() bool { return (c.recvW > 0 && len(c.buf) == 0) || c.closed }, "chan send (unbuffered)")
	}
	if c.closed {
		panic(goPanic{msg: "send on closed channel"})
	}
	c.buf = append(c.buf, v)
	in.release(c.vc)
	in.releaseW(c)
}

func (in *Interp) chanRecv(c *ChanObj, et types.Type) (Value, bool) {
	in.visible("recv")
	if c == nil {
		in.blockUntil(func() bool { return false }, "receive from nil channel")
	}
	c.recvW++
	in.blockUntil(func() bool { return len(c.buf) > 0 || c.closed }, "chan receive")
	c.recvW--
	in.acquire(c.vc)
	in.acquireW(c)
	if len(c.buf) > 0 {
		v := c.buf[0]
		c.buf = c.buf[1:]
		return v, true
	}
	return in.zeroValue(et), false
}

func (in *Interp) chanClose(c *ChanObj) {
	in.visible("close")
	if c == nil {
		panic(goPanic{msg: "close of nil channel"})
	}
	if c.closed {
		panic(goPanic{msg: "close of closed channel"})
	}
	c.closed = true
	in.release(c.vc)
	in.releaseW(c)
}

func (in *Interp) selectOp(fr *frame, x *ssa.Select) Value {
	in.visible("select")
	type st struct {
		ch   *ChanObj
		send bool
		val  Value
		et   types.Type
	}
	states := make([]st, len(x.States))
	for i, s := range x.States {
		ch, _ := in.get(fr, s.Chan).(*ChanObj)
		states[i] = st{ch: ch, send: s.Dir == types.SendOnly, et: s.Chan.Type().Underlying().(*types.Chan).Elem()}
		if states[i].send {
			states[i].val = in.get(fr, s.Send)
		}
	}
	ready := func() []int {
		var r []int
		for i, s := range states {
			if s.ch == nil {
				continue
			}
			if s.send {
				if s.ch.closed || (s.ch.cap > 0 && len(s.ch.buf) < s.ch.cap) || (s.ch.cap == 0 && s.ch.recvW > 0 && len(s.ch.buf) == 0) {
					r = append(r, i)
				}
			} else if len(s.ch.buf) > 0 || s.ch.closed {
				r = append(r, i)
			}
		}
		return r
	}
	r := ready()
	if len(r) == 0 {
		if !x.Blocking {
			return in.selectResult(x, -1, nil, false, states[:0], nil)
		}
		for _, s := range states {
			if s.ch != nil && !s.send {
				s.ch.recvW++
			}
		}
		in.blockUntil(func() bool { return len(ready()) > 0 }, "select")
		for _, s := range states {
			if s.ch != nil && !s.send {
				s.ch.recvW--
			}
		}
		r = ready()
	}
	pick := r[0]
	if len(r) > 1 {
		pick = r[in.choose(len(r), "select")]
	}
	s := states[pick]
	var rv Value
	rok := false
	if s.send {
		if s.ch.closed {
			panic(goPanic{msg: "send on closed channel"})
		}
		s.ch.buf = append(s.ch.buf, s.val)
		in.release(s.ch.vc)
		in.releaseW(s.ch)
	} else {
		in.acquire(s.ch.vc)
		in.acquireW(s.ch)
		if len(s.ch.buf) > 0 {
			rv = s.ch.buf[0]
			s.ch.buf = s.ch.buf[1:]
			rok = true
		} else {
			rv = in.zeroValue(s.et)
		}
	}
	ets := make([]types.Type, len(states))
	sends := make([]bool, len(states))
	for i := range states {
		ets[i] = states[i].et
		sends[i] = states[i].send
	}
	return in.selectResult(x, pick, rv, rok, nil, &selInfo{ets, sends})
}

type selInfo struct {
	ets   []types.Type
	sends []bool
}

func (in *Interp) selectResult(x *ssa.Select, idx int, rv Value, rok bool, _ any, si *selInfo) Value {
	tt := x.Type().(*types.Tuple)
	out := make(Tuple, tt.Len())
	out[0] = in.intVal(idx)
	out[1] = in.M.Bool(rok)
	k := 2
	for i, s := range x.States {
		if s.Dir != types.RecvOnly {
			continue
		}
		if i == idx {
			out[k] = rv
		} else {
			out[k] = in.zeroValue(tt.At(k).Type())
		}
		k++
	}
	return out
}

func (in *Interp) timeValue() Value {
	// time.Time struct {wall uint64; ext int64; loc *Location}
	tt := in.timeType()
	if tt == nil {
		return Struct{in.M.BV(0, 64), in.M.BV(0, 64), Ptr{}}
	}
	v := in.zeroValue(tt).(Struct)
	v[1] = in.nextClock()
	return v
}

func (in *Interp) timeType() types.Type {
	if p := in.P.Pkgs["time"]; p != nil {
		if t := p.Type("Time"); t != nil {
			return t.Type()
		}
	}
	return nil
}

// nextClock returns a fresh symbolic monotone clock reading (nanoseconds).
func (in *Interp) nextClock() *term.T {
	p := in.path
	if p.initMode {
		return in.M.BV(0, 64)
	}
	p.clockN++
	t := in.M.NewSym(fmt.Sprintf("$clock#%d", p.clockN), 64)
	// keep it in a sane non-negative range and monotone
	in.addPCQuiet(in.M.Ule(t, in.M.BV(1<<40, 64)))
	if p.timeNow != nil {
		in.addPCQuiet(in.M.Ule(p.timeNow, t))
	}
	p.timeNow = t
	return t
}

// addPCQuiet adds a constraint that is known to be satisfiable with the current pc
// (fresh symbol): the model is extended instead of being invalidated.
func (in *Interp) addPCQuiet(c *term.T) {
	in.addPC(c)
	if in.path.model != nil {
		if v, ok := in.modelEval(c); ok && v == 0 {
			in.dropModel()
		}
	}
}
