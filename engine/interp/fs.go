package interp

import (
	"fmt"
	"go/types"
	"os"
	"path/filepath"
	"sort"
	"strings"

	"symgo/term"

	"golang.org/x/tools/go/ssa"
)

type inode struct {
	id   int
	data []*term.T
}

type fileObj struct {
	id       int
	ino      *inode
	path     string
	flag     int
	off      int
	closed   bool
	readable bool
	writable bool
	appendM  bool
	dir      bool
	obj      *Object
}

type mutKind int

const (
	mCreate mutKind = iota // create empty file at path (ino)
	mTrunc                 // truncate inode to size
	mWrite                 // write data at off of inode (off<0: append)
	mRename
	mRemove
	mMkdir
	mRemoveAll
)

type mutation struct {
	kind   mutKind
	ino    int
	path   string
	path2  string
	off    int
	size   int
	data   []*term.T
	appendW bool
}

type FS struct {
	files   map[string]*inode
	dirs    map[string]bool
	open    []*fileObj
	nextIno int
	nextFd  int
	tmpN    int

	// crash window
	winRoot  string
	winOn    bool
	winSnapF map[string]int        // path -> inode id at CrashBegin
	winSnapD map[string]bool       // dirs at CrashBegin
	winSnapI map[int][]*term.T     // inode id -> data at CrashBegin
	winLog   []mutation
	mutCount int
	doubleClose int
}

func newFS() *FS {
	return &FS{files: map[string]*inode{}, dirs: map[string]bool{"/": true, "/vfs": true, "/tmp": true}}
}

func (fs *FS) logMut(m mutation) {
	fs.mutCount++
	if fs.winOn {
		fs.winLog = append(fs.winLog, m)
	}
}

func clean(p string) string {
	if !filepath.IsAbs(p) {
		p = "/vfs/cwd/" + p
	}
	return filepath.Clean(p)
}

// ---- error helpers ----

type errObj struct {
	msg     string
	kind    string // notexist, exist, closed, badfd, notdir, other
	wrapped Iface
	iface   string // interface-ish tag: "runtime.Error" etc.
}

func (in *Interp) newErr(msg string, wrapped Iface, kind string) Iface {
	return Iface{T: ntErr, V: Native{&errObj{msg: msg, kind: kind, wrapped: wrapped}}}
}

func (in *Interp) fsErr(op, path, kind string) Iface {
	var what string
	switch kind {
	case "notexist":
		what = "no such file or directory"
	case "exist":
		what = "file exists"
	case "closed":
		what = "file already closed"
	case "badfd":
		what = "bad file descriptor"
	case "notdir":
		what = "not a directory"
	case "isdir":
		what = "is a directory"
	case "notempty":
		what = "directory not empty"
	default:
		what = kind
	}
	return in.newErr(op+" "+path+": "+what, Iface{}, kind)
}

func (in *Interp) strArg(v Value) string {
	s := v.(Str)
	if s.Sym != nil {
		// concretise every byte
		b := make([]byte, len(s.Sym))
		for i, t := range s.Sym {
			b[i] = byte(in.concretise(t, "string-byte"))
		}
		return string(b)
	}
	return s.S
}

func (in *Interp) globalVal(pkg, name string) Value {
	sp := in.P.Pkgs[pkg]
	if sp == nil {
		panic(engineErr("package %s not loaded", pkg))
	}
	g, ok := sp.Members[name].(*ssa.Global)
	if !ok {
		panic(engineErr("global %s.%s not found", pkg, name))
	}
	o := in.global(g)
	return in.load(Ptr{o, 0}, g.Type().(*types.Pointer).Elem())
}

func (in *Interp) ioEOF() Value { return in.globalVal("io", "EOF") }

// ---- file objects ----

func (in *Interp) fileType() types.Type {
	return in.P.Pkgs["os"].Type("File").Type()
}

func (in *Interp) newFileValue(f *fileObj) Value {
	o := in.newObject(in.fileType())
	o.Native = f
	f.obj = o
	return Ptr{o, 0}
}

func (in *Interp) fileOf(v Value, op string) (*fileObj, Iface) {
	p := v.(Ptr)
	if p.Obj == nil {
		// methods on nil *os.File return ErrInvalid, except Name() which panics
		return nil, in.newErr("invalid argument", Iface{}, "invalid")
	}
	f, ok := p.Obj.Native.(*fileObj)
	if !ok {
		panic(engineErr("*os.File without model object"))
	}
	return f, Iface{}
}

func (fs *FS) parentExists(p string) bool {
	return fs.dirs[filepath.Dir(p)]
}

func (in *Interp) openFile(name string, flag int) (Value, Iface) {
	fs := in.fs
	p := clean(name)
	in.visible("fs:open")
	if fs.dirs[p] {
		if flag&(os.O_WRONLY|os.O_RDWR) != 0 {
			return Ptr{}, in.fsErr("open", name, "isdir")
		}
		f := &fileObj{path: name, flag: flag, dir: true, readable: true}
		fs.nextFd++
		f.id = fs.nextFd
		fs.open = append(fs.open, f)
		return in.newFileValue(f), Iface{}
	}
	ino, ok := fs.files[p]
	if !ok {
		if flag&os.O_CREATE == 0 {
			return Ptr{}, in.fsErr("open", name, "notexist")
		}
		if !fs.parentExists(p) {
			return Ptr{}, in.fsErr("open", name, "notexist")
		}
		fs.nextIno++
		ino = &inode{id: fs.nextIno}
		fs.files[p] = ino
		fs.logMut(mutation{kind: mCreate, ino: ino.id, path: p})
	} else {
		if flag&os.O_CREATE != 0 && flag&os.O_EXCL != 0 {
			return Ptr{}, in.fsErr("open", name, "exist")
		}
		if flag&os.O_TRUNC != 0 && flag&(os.O_WRONLY|os.O_RDWR) != 0 && len(ino.data) > 0 {
			ino.data = nil
			fs.logMut(mutation{kind: mTrunc, ino: ino.id, size: 0})
		}
	}
	f := &fileObj{ino: ino, path: name, flag: flag}
	switch flag & (os.O_RDONLY | os.O_WRONLY | os.O_RDWR) {
	case os.O_RDONLY:
		f.readable = true
	case os.O_WRONLY:
		f.writable = true
	default:
		f.readable, f.writable = true, true
	}
	f.appendM = flag&os.O_APPEND != 0
	fs.nextFd++
	f.id = fs.nextFd
	fs.open = append(fs.open, f)
	return in.newFileValue(f), Iface{}
}

func (fs *FS) openCount() int {
	n := 0
	for _, f := range fs.open {
		if !f.closed {
			n++
		}
	}
	return n
}

func (in *Interp) fileWrite(f *fileObj, data []*term.T, at int, useAt bool) (int, Iface) {
	if f.closed {
		return 0, in.fsErr("write", f.path, "closed")
	}
	if !f.writable || f.dir {
		return 0, in.fsErr("write", f.path, "badfd")
	}
	in.visible("fs:write")
	if len(data) == 0 {
		return 0, Iface{}
	}
	ino := f.ino
	off := f.off
	isAppend := false
	if useAt {
		off = at
	} else if f.appendM {
		off = len(ino.data)
		isAppend = true
	}
	if off == len(ino.data) {
		isAppend = true
	}
	for len(ino.data) < off {
		ino.data = append(ino.data, in.M.BV(0, 8))
	}
	// copy-on-write friendly: build new slice to keep snapshots intact
	nd := make([]*term.T, max(len(ino.data), off+len(data)))
	copy(nd, ino.data)
	copy(nd[off:], data)
	ino.data = nd
	if !useAt {
		f.off = off + len(data)
	}
	cp := make([]*term.T, len(data))
	copy(cp, data)
	in.fs.logMut(mutation{kind: mWrite, ino: ino.id, off: off, data: cp, appendW: isAppend})
	return len(data), Iface{}
}

func (in *Interp) fileRead(f *fileObj, n int, at int, useAt bool) ([]*term.T, Iface) {
	if f.closed {
		return nil, in.fsErr("read", f.path, "closed")
	}
	if !f.readable || f.dir {
		return nil, in.fsErr("read", f.path, "badfd")
	}
	in.visible("fs:read")
	off := f.off
	if useAt {
		off = at
	}
	data := f.ino.data
	if off >= len(data) {
		return nil, Iface{}
	}
	end := off + n
	if end > len(data) {
		end = len(data)
	}
	out := data[off:end]
	if !useAt {
		f.off = end
	}
	return out, Iface{}
}

func (in *Interp) writeToSlice(dst Slice, data []*term.T) {
	for i, t := range data {
		in.storeSlot(dst.Obj, dst.Off+i, t)
	}
}

func (in *Interp) truncateIno(ino *inode, n int) {
	if n < len(ino.data) {
		nd := make([]*term.T, n)
		copy(nd, ino.data)
		ino.data = nd
	} else {
		nd := make([]*term.T, n)
		copy(nd, ino.data)
		for i := len(ino.data); i < n; i++ {
			nd[i] = in.M.BV(0, 8)
		}
		ino.data = nd
	}
	in.fs.logMut(mutation{kind: mTrunc, ino: ino.id, size: n})
}

func (in *Interp) fileInfo(name string, size int, dir bool) Iface {
	return Iface{T: ntFileInfo, V: Native{&fileInfoObj{name: filepath.Base(name), size: size, dir: dir}}}
}

type fileInfoObj struct {
	name string
	size int
	dir  bool
}

func errT(e Iface) Value { return e }

func (in *Interp) nilErr() Value { return Iface{} }

// ---- os package intrinsics ----

func init() {
	reg := func(name string, f Intrinsic) { intrinsics[name] = f }

	reg("os.OpenFile", func(in *Interp, fr *frame, a []Value, c *ssa.CallCommon) Value {
		flag := in.concInt(a[1].(*term.T), "open-flag")
		f, e := in.openFile(in.strArg(a[0]), flag)
		return Tuple{f, e}
	})
	reg("os.Open", func(in *Interp, fr *frame, a []Value, c *ssa.CallCommon) Value {
		f, e := in.openFile(in.strArg(a[0]), os.O_RDONLY)
		return Tuple{f, e}
	})
	reg("os.Create", func(in *Interp, fr *frame, a []Value, c *ssa.CallCommon) Value {
		f, e := in.openFile(in.strArg(a[0]), os.O_RDWR|os.O_CREATE|os.O_TRUNC)
		return Tuple{f, e}
	})
	reg("os.Stat", func(in *Interp, fr *frame, a []Value, c *ssa.CallCommon) Value {
		name := in.strArg(a[0])
		p := clean(name)
		in.visible("fs:stat")
		if in.fs.dirs[p] {
			return Tuple{in.fileInfo(name, 0, true), Iface{}}
		}
		if ino, ok := in.fs.files[p]; ok {
			return Tuple{in.fileInfo(name, len(ino.data), false), Iface{}}
		}
		return Tuple{Iface{}, in.fsErr("stat", name, "notexist")}
	})
	reg("os.Lstat", intrinsics["os.Stat"])
	reg("os.Remove", func(in *Interp, fr *frame, a []Value, c *ssa.CallCommon) Value {
		name := in.strArg(a[0])
		p := clean(name)
		in.visible("fs:remove")
		fs := in.fs
		if _, ok := fs.files[p]; ok {
			delete(fs.files, p)
			fs.logMut(mutation{kind: mRemove, path: p})
			return Iface{}
		}
		if fs.dirs[p] {
			for q := range fs.files {
				if strings.HasPrefix(q, p+"/") {
					return in.fsErr("remove", name, "notempty")
				}
			}
			for q := range fs.dirs {
				if strings.HasPrefix(q, p+"/") {
					return in.fsErr("remove", name, "notempty")
				}
			}
			delete(fs.dirs, p)
			fs.logMut(mutation{kind: mRemove, path: p})
			return Iface{}
		}
		return in.fsErr("remove", name, "notexist")
	})
	reg("os.RemoveAll", func(in *Interp, fr *frame, a []Value, c *ssa.CallCommon) Value {
		name := in.strArg(a[0])
		p := clean(name)
		in.visible("fs:removeall")
		fs := in.fs
		found := false
		for q := range fs.files {
			if q == p || strings.HasPrefix(q, p+"/") {
				delete(fs.files, q)
				found = true
			}
		}
		for q := range fs.dirs {
			if q == p || strings.HasPrefix(q, p+"/") {
				delete(fs.dirs, q)
				found = true
			}
		}
		if found {
			fs.logMut(mutation{kind: mRemoveAll, path: p})
		}
		return Iface{}
	})
	reg("os.Rename", func(in *Interp, fr *frame, a []Value, c *ssa.CallCommon) Value {
		on, nn := in.strArg(a[0]), in.strArg(a[1])
		op, np := clean(on), clean(nn)
		in.visible("fs:rename")
		fs := in.fs
		if ino, ok := fs.files[op]; ok {
			if fs.dirs[np] {
				return in.newErr("rename "+on+" "+nn+": file exists", Iface{}, "exist")
			}
			if !fs.parentExists(np) {
				return in.newErr("rename "+on+" "+nn+": no such file or directory", Iface{}, "notexist")
			}
			delete(fs.files, op)
			fs.files[np] = ino
			fs.logMut(mutation{kind: mRename, path: op, path2: np})
			return Iface{}
		}
		if fs.dirs[op] {
			if _, ok := fs.files[np]; ok {
				return in.newErr("rename "+on+" "+nn+": not a directory", Iface{}, "notdir")
			}
			if !fs.parentExists(np) {
				return in.newErr("rename "+on+" "+nn+": no such file or directory", Iface{}, "notexist")
			}
			mv := map[string]string{}
			for q := range fs.files {
				if strings.HasPrefix(q, op+"/") {
					mv[q] = np + q[len(op):]
				}
			}
			for q, n := range mv {
				fs.files[n] = fs.files[q]
				delete(fs.files, q)
			}
			mvd := map[string]string{}
			for q := range fs.dirs {
				if q == op || strings.HasPrefix(q, op+"/") {
					mvd[q] = np + q[len(op):]
				}
			}
			for q, n := range mvd {
				delete(fs.dirs, q)
				fs.dirs[n] = true
			}
			fs.logMut(mutation{kind: mRename, path: op, path2: np})
			return Iface{}
		}
		return in.newErr("rename "+on+" "+nn+": no such file or directory", Iface{}, "notexist")
	})
	reg("os.Truncate", func(in *Interp, fr *frame, a []Value, c *ssa.CallCommon) Value {
		name := in.strArg(a[0])
		n := in.concInt(a[1].(*term.T), "truncate-size")
		in.visible("fs:truncate")
		ino, ok := in.fs.files[clean(name)]
		if !ok {
			return in.fsErr("truncate", name, "notexist")
		}
		if n < 0 {
			return in.fsErr("truncate", name, "invalid argument")
		}
		if n != len(ino.data) {
			in.truncateIno(ino, n)
		}
		return Iface{}
	})
	reg("os.MkdirAll", func(in *Interp, fr *frame, a []Value, c *ssa.CallCommon) Value {
		name := in.strArg(a[0])
		p := clean(name)
		in.visible("fs:mkdir")
		if _, ok := in.fs.files[p]; ok {
			return in.fsErr("mkdir", name, "notdir")
		}
		var mk []string
		for q := p; !in.fs.dirs[q]; q = filepath.Dir(q) {
			if _, ok := in.fs.files[q]; ok {
				return in.fsErr("mkdir", name, "notdir")
			}
			mk = append(mk, q)
		}
		for i := len(mk) - 1; i >= 0; i-- {
			in.fs.dirs[mk[i]] = true
			in.fs.logMut(mutation{kind: mMkdir, path: mk[i]})
		}
		return Iface{}
	})
	reg("os.Mkdir", func(in *Interp, fr *frame, a []Value, c *ssa.CallCommon) Value {
		name := in.strArg(a[0])
		p := clean(name)
		in.visible("fs:mkdir")
		if in.fs.dirs[p] {
			return in.fsErr("mkdir", name, "exist")
		}
		if _, ok := in.fs.files[p]; ok {
			return in.fsErr("mkdir", name, "exist")
		}
		if !in.fs.parentExists(p) {
			return in.fsErr("mkdir", name, "notexist")
		}
		in.fs.dirs[p] = true
		in.fs.logMut(mutation{kind: mMkdir, path: p})
		return Iface{}
	})
	reg("os.MkdirTemp", func(in *Interp, fr *frame, a []Value, c *ssa.CallCommon) Value {
		dir, pat := in.strArg(a[0]), in.strArg(a[1])
		if dir == "" {
			dir = "/tmp"
		}
		in.visible("fs:mkdir")
		if !in.fs.dirs[clean(dir)] {
			return Tuple{Str{}, in.fsErr("mkdirtemp", dir, "notexist")}
		}
		in.fs.tmpN++
		name := filepath.Join(dir, fmt.Sprintf("%s%d", strings.ReplaceAll(pat, "*", ""), in.fs.tmpN))
		in.fs.dirs[clean(name)] = true
		in.fs.logMut(mutation{kind: mMkdir, path: clean(name)})
		return Tuple{Str{S: name}, Iface{}}
	})
	reg("os.ReadFile", func(in *Interp, fr *frame, a []Value, c *ssa.CallCommon) Value {
		name := in.strArg(a[0])
		in.visible("fs:readfile")
		ino, ok := in.fs.files[clean(name)]
		if !ok {
			return Tuple{Slice{ES: 1}, in.fsErr("open", name, "notexist")}
		}
		return Tuple{in.newByteSlice(ino.data), Iface{}}
	})
	reg("os.WriteFile", func(in *Interp, fr *frame, a []Value, c *ssa.CallCommon) Value {
		name := in.strArg(a[0])
		fv, e := in.openFile(name, os.O_WRONLY|os.O_CREATE|os.O_TRUNC)
		if e.T != nil {
			return e
		}
		f := fv.(Ptr).Obj.Native.(*fileObj)
		data := in.sliceTermsRace(a[1].(Slice))
		_, e = in.fileWrite(f, data, 0, false)
		f.closed = true
		return e
	})
	reg("os.IsNotExist", func(in *Interp, fr *frame, a []Value, c *ssa.CallCommon) Value {
		return in.M.Bool(in.errKindIs(a[0].(Iface), "notexist", false))
	})
	reg("os.IsExist", func(in *Interp, fr *frame, a []Value, c *ssa.CallCommon) Value {
		return in.M.Bool(in.errKindIs(a[0].(Iface), "exist", false))
	})
	reg("os.Getenv", func(in *Interp, fr *frame, a []Value, c *ssa.CallCommon) Value { return Str{} })
	reg("os.TempDir", func(in *Interp, fr *frame, a []Value, c *ssa.CallCommon) Value { return Str{S: "/tmp"} })

	reg("(*os.File).Name", func(in *Interp, fr *frame, a []Value, c *ssa.CallCommon) Value {
		p := a[0].(Ptr)
		if p.Obj == nil {
			panic(goPanic{msg: "runtime error: invalid memory address or nil pointer dereference ((*os.File).Name on nil)"})
		}
		return Str{S: p.Obj.Native.(*fileObj).path}
	})
	reg("(*os.File).Close", func(in *Interp, fr *frame, a []Value, c *ssa.CallCommon) Value {
		f, e := in.fileOf(a[0], "close")
		if f == nil {
			return e
		}
		in.visible("fs:close")
		if f.closed {
			in.fs.doubleClose++
			return in.fsErr("close", f.path, "closed")
		}
		f.closed = true
		return Iface{}
	})
	reg("(*os.File).Sync", func(in *Interp, fr *frame, a []Value, c *ssa.CallCommon) Value {
		f, e := in.fileOf(a[0], "sync")
		if f == nil {
			return e
		}
		if f.closed {
			return in.fsErr("sync", f.path, "closed")
		}
		return Iface{}
	})
	reg("(*os.File).Stat", func(in *Interp, fr *frame, a []Value, c *ssa.CallCommon) Value {
		f, e := in.fileOf(a[0], "stat")
		if f == nil {
			return Tuple{Iface{}, e}
		}
		if f.closed {
			return Tuple{Iface{}, in.fsErr("stat", f.path, "closed")}
		}
		in.visible("fs:fstat")
		if f.dir {
			return Tuple{in.fileInfo(f.path, 0, true), Iface{}}
		}
		return Tuple{in.fileInfo(f.path, len(f.ino.data), false), Iface{}}
	})
	reg("(*os.File).Truncate", func(in *Interp, fr *frame, a []Value, c *ssa.CallCommon) Value {
		f, e := in.fileOf(a[0], "truncate")
		if f == nil {
			return e
		}
		if f.closed {
			return in.fsErr("truncate", f.path, "closed")
		}
		if !f.writable {
			return in.fsErr("truncate", f.path, "invalid argument")
		}
		n := in.concInt(a[1].(*term.T), "truncate-size")
		in.visible("fs:ftruncate")
		if n < 0 {
			return in.fsErr("truncate", f.path, "invalid argument")
		}
		if n != len(f.ino.data) {
			in.truncateIno(f.ino, n)
		}
		return Iface{}
	})
	reg("(*os.File).Seek", func(in *Interp, fr *frame, a []Value, c *ssa.CallCommon) Value {
		f, e := in.fileOf(a[0], "seek")
		if f == nil {
			return Tuple{in.M.BV(0, 64), e}
		}
		if f.closed {
			return Tuple{in.M.BV(0, 64), in.fsErr("seek", f.path, "closed")}
		}
		off := in.concInt(a[1].(*term.T), "seek-off")
		wh := in.concInt(a[2].(*term.T), "seek-whence")
		switch wh {
		case 0:
		case 1:
			off += f.off
		case 2:
			off += len(f.ino.data)
		}
		if off < 0 {
			return Tuple{in.M.BV(0, 64), in.fsErr("seek", f.path, "invalid argument")}
		}
		f.off = off
		return Tuple{in.intVal(off), Iface{}}
	})
	reg("(*os.File).Write", func(in *Interp, fr *frame, a []Value, c *ssa.CallCommon) Value {
		f, e := in.fileOf(a[0], "write")
		if f == nil {
			return Tuple{in.intVal(0), e}
		}
		n, e := in.fileWrite(f, in.sliceTermsRace(a[1].(Slice)), 0, false)
		return Tuple{in.intVal(n), e}
	})
	reg("(*os.File).WriteString", func(in *Interp, fr *frame, a []Value, c *ssa.CallCommon) Value {
		f, e := in.fileOf(a[0], "write")
		if f == nil {
			return Tuple{in.intVal(0), e}
		}
		n, e := in.fileWrite(f, in.strTerms(a[1].(Str)), 0, false)
		return Tuple{in.intVal(n), e}
	})
	reg("(*os.File).WriteAt", func(in *Interp, fr *frame, a []Value, c *ssa.CallCommon) Value {
		f, e := in.fileOf(a[0], "writeat")
		if f == nil {
			return Tuple{in.intVal(0), e}
		}
		if f.appendM {
			return Tuple{in.intVal(0), in.newErr("os: invalid use of WriteAt on file opened with O_APPEND", Iface{}, "other")}
		}
		off := in.concInt(a[2].(*term.T), "writeat-off")
		if off < 0 {
			return Tuple{in.intVal(0), in.fsErr("writeat", f.path, "negative offset")}
		}
		n, e := in.fileWrite(f, in.sliceTermsRace(a[1].(Slice)), off, true)
		return Tuple{in.intVal(n), e}
	})
	reg("(*os.File).Read", func(in *Interp, fr *frame, a []Value, c *ssa.CallCommon) Value {
		f, e := in.fileOf(a[0], "read")
		if f == nil {
			return Tuple{in.intVal(0), e}
		}
		dst := a[1].(Slice)
		data, e := in.fileRead(f, dst.Len, 0, false)
		if e.T != nil {
			return Tuple{in.intVal(0), e}
		}
		in.writeToSlice(dst, data)
		if len(data) == 0 && dst.Len > 0 {
			return Tuple{in.intVal(0), in.ioEOF()}
		}
		return Tuple{in.intVal(len(data)), Iface{}}
	})
	reg("(*os.File).ReadAt", func(in *Interp, fr *frame, a []Value, c *ssa.CallCommon) Value {
		f, e := in.fileOf(a[0], "readat")
		if f == nil {
			return Tuple{in.intVal(0), e}
		}
		dst := a[1].(Slice)
		off := in.concInt(a[2].(*term.T), "readat-off")
		if off < 0 {
			return Tuple{in.intVal(0), in.fsErr("readat", f.path, "negative offset")}
		}
		data, e := in.fileRead(f, dst.Len, off, true)
		if e.T != nil {
			return Tuple{in.intVal(0), e}
		}
		in.writeToSlice(dst, data)
		if len(data) < dst.Len {
			return Tuple{in.intVal(len(data)), in.ioEOF()}
		}
		return Tuple{in.intVal(len(data)), Iface{}}
	})
	reg("(*os.File).Fd", func(in *Interp, fr *frame, a []Value, c *ssa.CallCommon) Value {
		f, _ := in.fileOf(a[0], "fd")
		if f == nil {
			return in.M.BV(^uint64(0), 64)
		}
		return in.M.BV(uint64(f.id+2), 64)
	})
}

// errKindIs walks the unwrap chain looking for an engine error of the kind.
func (in *Interp) errKindIs(e Iface, kind string, deep bool) bool {
	for depth := 0; depth < 16 && e.T != nil; depth++ {
		if e.T == ntErr {
			eo := e.V.(Native).P.(*errObj)
			if eo.kind == kind {
				return true
			}
			// os.IsNotExist only unwraps PathError/LinkError/SyscallError; our fs errors are flat.
			if !deep {
				return false
			}
			e = eo.wrapped
			continue
		}
		// interpreted error types: *fs.PathError etc.
		if pt, ok := e.T.(*types.Pointer); ok {
			if n, ok := pt.Elem().(*types.Named); ok && (n.Obj().Name() == "PathError" || n.Obj().Name() == "LinkError" || n.Obj().Name() == "SyscallError") {
				st := n.Underlying().(*types.Struct)
				for i := 0; i < st.NumFields(); i++ {
					if st.Field(i).Name() == "Err" {
						p := e.V.(Ptr)
						inner := in.load(Ptr{p.Obj, p.Off + in.lay(n).fields[i]}, st.Field(i).Type()).(Iface)
						e = inner
						goto next
					}
				}
			}
		}
		if !deep {
			return false
		}
		{
			u, ok := in.unwrapErr(e)
			if !ok {
				return false
			}
			e = u
		}
	next:
	}
	return false
}

// ---- crash windows ----

func (in *Interp) crashBegin(root string) {
	fs := in.fs
	fs.winRoot = clean(root)
	fs.winOn = true
	fs.winLog = nil
	fs.winSnapF = map[string]int{}
	fs.winSnapD = map[string]bool{}
	fs.winSnapI = map[int][]*term.T{}
	for p, ino := range fs.files {
		if strings.HasPrefix(p, fs.winRoot+"/") {
			fs.winSnapF[p] = ino.id
			fs.winSnapI[ino.id] = ino.data
		}
	}
	// inodes reachable only through open files (unlinked) also matter for later renames: none
	for p := range fs.dirs {
		if p == fs.winRoot || strings.HasPrefix(p, fs.winRoot+"/") {
			fs.winSnapD[p] = true
		}
	}
}

func (in *Interp) crashEnd() {
	in.fs.winOn = false
}

// crashOps returns the number of logged mutations that touch the window root.
func (in *Interp) crashImage(k int, t int) string {
	fs := in.fs
	files := map[string]int{}
	for p, id := range fs.winSnapF {
		files[p] = id
	}
	dirs := map[string]bool{}
	for p := range fs.winSnapD {
		dirs[p] = true
	}
	inodes := map[int][]*term.T{}
	for id, d := range fs.winSnapI {
		inodes[id] = d
	}
	under := func(p string) bool { return p == fs.winRoot || strings.HasPrefix(p, fs.winRoot+"/") }
	apply := func(m mutation, partial int) {
		switch m.kind {
		case mCreate:
			if under(m.path) {
				files[m.path] = m.ino
				inodes[m.ino] = nil
			}
		case mTrunc:
			if d, ok := inodes[m.ino]; ok {
				nd := make([]*term.T, m.size)
				copy(nd, d)
				for i := len(d); i < m.size; i++ {
					nd[i] = in.M.BV(0, 8)
				}
				inodes[m.ino] = nd
			}
		case mWrite:
			if d, ok := inodes[m.ino]; ok {
				data := m.data
				if partial >= 0 {
					data = data[:partial]
				}
				off := m.off
				n := len(d)
				if off+len(data) > n {
					n = off + len(data)
				}
				nd := make([]*term.T, n)
				copy(nd, d)
				for i := len(d); i < off; i++ {
					nd[i] = in.M.BV(0, 8)
				}
				copy(nd[off:], data)
				inodes[m.ino] = nd
			}
		case mRename:
			if id, ok := files[m.path]; ok {
				delete(files, m.path)
				if under(m.path2) {
					files[m.path2] = id
				}
			} else if dirs[m.path] {
				for q, id := range files {
					if strings.HasPrefix(q, m.path+"/") {
						delete(files, q)
						files[m.path2+q[len(m.path):]] = id
					}
				}
				for q := range dirs {
					if q == m.path || strings.HasPrefix(q, m.path+"/") {
						delete(dirs, q)
						dirs[m.path2+q[len(m.path):]] = true
					}
				}
			}
		case mRemove:
			delete(files, m.path)
			delete(dirs, m.path)
		case mRemoveAll:
			for q := range files {
				if q == m.path || strings.HasPrefix(q, m.path+"/") {
					delete(files, q)
				}
			}
			for q := range dirs {
				if q == m.path || strings.HasPrefix(q, m.path+"/") {
					delete(dirs, q)
				}
			}
		case mMkdir:
			if under(m.path) {
				dirs[m.path] = true
			}
		}
	}
	for i := 0; i < k && i < len(fs.winLog); i++ {
		apply(fs.winLog[i], -1)
	}
	if t > 0 && k < len(fs.winLog) && fs.winLog[k].kind == mWrite {
		apply(fs.winLog[k], t)
	}
	// materialise
	fs.tmpN++
	img := fmt.Sprintf("/vfs/img%d", fs.tmpN)
	fs.dirs[img] = true
	for p := range dirs {
		if p != fs.winRoot {
			fs.dirs[img+p[len(fs.winRoot):]] = true
		}
	}
	var names []string
	for p := range files {
		names = append(names, p)
	}
	sort.Strings(names)
	for _, p := range names {
		fs.nextIno++
		fs.files[img+p[len(fs.winRoot):]] = &inode{id: fs.nextIno, data: inodes[files[p]]}
	}
	return img
}

// dirImage returns a canonical listing of a directory tree (for comparisons).
func (in *Interp) listTree(root string) []string {
	root = clean(root)
	var out []string
	for p := range in.fs.files {
		if strings.HasPrefix(p, root+"/") {
			out = append(out, p[len(root)+1:])
		}
	}
	sort.Strings(out)
	return out
}
