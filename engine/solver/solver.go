// Package solver drives persistent SMT solver processes (z3, z3-new, cvc5)
// with constraint-independence slicing, a query cache and a small portfolio.
package solver

import (
	"bufio"
	"crypto/sha256"
	"fmt"
	"io"
	"os/exec"
	"sort"
	"strconv"
	"strings"
	"sync"
	"sync/atomic"
	"time"

	"symgo/term"
)

type Result int

const (
	Unknown Result = iota
	Sat
	Unsat
)

func (r Result) String() string { return [...]string{"unknown", "sat", "unsat"}[r] }

type proc struct {
	name  string
	args  []string
	cmd   *exec.Cmd
	in    io.WriteCloser
	out   *bufio.Reader
	pre   string
	dead  bool
	calls int
}

func (p *proc) start() error {
	p.cmd = exec.Command(p.args[0], p.args[1:]...)
	in, err := p.cmd.StdinPipe()
	if err != nil {
		return err
	}
	out, err := p.cmd.StdoutPipe()
	if err != nil {
		return err
	}
	p.cmd.Stderr = nil
	if err = p.cmd.Start(); err != nil {
		return err
	}
	p.in = in
	p.out = bufio.NewReaderSize(out, 1<<16)
	p.dead = false
	p.calls = 0
	_, err = io.WriteString(p.in, p.pre)
	return err
}

func (p *proc) stop() {
	if p.cmd != nil && p.cmd.Process != nil {
		p.in.Close()
		p.cmd.Process.Kill()
		p.cmd.Wait()
	}
	p.cmd = nil
	p.dead = true
}

// readSexp reads one complete answer: either an atom line or a balanced s-expression.
func (p *proc) readAnswer() (string, error) {
	var sb strings.Builder
	depth := 0
	started := false
	for {
		line, err := p.out.ReadString('\n')
		if err != nil {
			return sb.String(), err
		}
		inStr := false
		inBar := false
		for i := 0; i < len(line); i++ {
			c := line[i]
			switch {
			case inStr:
				if c == '"' {
					inStr = false
				}
			case inBar:
				if c == '|' {
					inBar = false
				}
			case c == '"':
				inStr = true
			case c == '|':
				inBar = true
			case c == '(':
				depth++
				started = true
			case c == ')':
				depth--
			}
		}
		if strings.TrimSpace(line) == "" && !started {
			continue
		}
		sb.WriteString(line)
		if depth <= 0 {
			return strings.TrimSpace(sb.String()), nil
		}
	}
}

// Stats are global counters (atomic).
type Stats struct {
	Queries    int64
	CacheHits  int64
	Sat        int64
	Unsat      int64
	Unknown    int64
	Errors     int64
	ModelEvals int64 // answered by evaluating under a cached model
	NanosZ3    int64
	NanosCVC5  int64
	NanosZ3New int64
	Trivial    int64
	Relaxed    int64
}

var Global Stats

type cacheEnt struct {
	res Result
	mod term.Model
}

var (
	cacheMu sync.Mutex
	cache   = map[[32]byte]cacheEnt{}
)

// S is a per-worker solver front end.
type S struct {
	M         *term.M
	z3        *proc
	cvc       *proc
	z3n       *proc
	TimeoutMs int
	symMemo   map[*term.T][]string
	Deadline  time.Time // after this instant every query answers Unknown at once (wall budget of the run)
	hardTO    int       // consecutive hard timeouts (solver killed) on the current path
	Diff      bool      // cross-check every query with a second solver
	DiffBad   int
	LogFile   io.Writer
}

func New(m *term.M, timeoutMs int) *S {
	s := &S{M: m, TimeoutMs: timeoutMs, symMemo: map[*term.T][]string{}}
	s.z3 = &proc{name: "z3", args: []string{"z3", "-in", "-t:" + strconv.Itoa(timeoutMs)},
		pre: "(set-option :produce-models true)\n"}
	s.cvc = &proc{name: "cvc5", args: []string{"cvc5", "--incremental", "--produce-models", "--solve-bv-as-int=sum",
		"--tlimit-per=" + strconv.Itoa(timeoutMs*4), "--lang", "smt2"},
		pre: "(set-logic ALL)\n"}
	s.z3n = &proc{name: "z3-new", args: []string{"z3-new", "-in", "-t:" + strconv.Itoa(timeoutMs*4)},
		pre: "(set-option :produce-models true)\n"}
	return s
}

func (s *S) Close() {
	for _, p := range []*proc{s.z3, s.cvc, s.z3n} {
		if p != nil && p.cmd != nil {
			p.stop()
		}
	}
}

func (s *S) symsOf(t *term.T) []string {
	if v, ok := s.symMemo[t]; ok {
		return v
	}
	out := map[string]*term.T{}
	term.Syms(t, map[*term.T]bool{}, out)
	names := make([]string, 0, len(out))
	for n := range out {
		names = append(names, n)
	}
	sort.Strings(names)
	s.symMemo[t] = names
	return names
}

// slice returns the constraints of pc connected (through shared symbols) to goal.
func (s *S) slice(pc []*term.T, goal *term.T) []*term.T {
	if len(pc) == 0 {
		return nil
	}
	parent := map[string]string{}
	var find func(x string) string
	find = func(x string) string {
		p, ok := parent[x]
		if !ok {
			parent[x] = x
			return x
		}
		if p == x {
			return x
		}
		r := find(p)
		parent[x] = r
		return r
	}
	union := func(a, b string) {
		ra, rb := find(a), find(b)
		if ra != rb {
			parent[ra] = rb
		}
	}
	for _, c := range pc {
		ss := s.symsOf(c)
		for i := 1; i < len(ss); i++ {
			union(ss[0], ss[i])
		}
	}
	gs := s.symsOf(goal)
	for i := 1; i < len(gs); i++ {
		union(gs[0], gs[i])
	}
	if len(gs) == 0 {
		return nil
	}
	root := find(gs[0])
	var out []*term.T
	for _, c := range pc {
		ss := s.symsOf(c)
		if len(ss) > 0 && find(ss[0]) == root {
			out = append(out, c)
		}
	}
	return out
}

// Components partitions constraints into independent groups.
func (s *S) Components(cs []*term.T) [][]*term.T {
	parent := map[string]string{}
	var find func(x string) string
	find = func(x string) string {
		p, ok := parent[x]
		if !ok {
			parent[x] = x
			return x
		}
		if p == x {
			return x
		}
		r := find(p)
		parent[x] = r
		return r
	}
	for _, c := range cs {
		ss := s.symsOf(c)
		for i := 1; i < len(ss); i++ {
			ra, rb := find(ss[0]), find(ss[i])
			if ra != rb {
				parent[ra] = rb
			}
		}
	}
	groups := map[string][]*term.T{}
	var order []string
	for _, c := range cs {
		ss := s.symsOf(c)
		if len(ss) == 0 {
			continue
		}
		r := find(ss[0])
		if _, ok := groups[r]; !ok {
			order = append(order, r)
		}
		groups[r] = append(groups[r], c)
	}
	out := make([][]*term.T, 0, len(order))
	for _, r := range order {
		out = append(out, groups[r])
	}
	return out
}

// Check decides satisfiability of pc ∧ goal (goal already negated by the caller if
// validity is asked). pc is assumed satisfiable on its own. With wantModel a model
// for the relevant slice is returned on Sat.
func (s *S) Check(pc []*term.T, goal *term.T, wantModel bool) (Result, term.Model) {
	if !s.Deadline.IsZero() && time.Now().After(s.Deadline) {
		return Unknown, nil // wall budget of the run used up: inconclusive
	}
	if goal.IsConst() {
		atomic.AddInt64(&Global.Trivial, 1)
		if goal.IsTrue() {
			if !wantModel {
				return Sat, nil
			}
			// need a model of pc: fall through with goal true over everything
			return s.CheckAll(pc, true)
		}
		return Unsat, nil
	}
	rel := s.slice(pc, goal)
	cs := make([]*term.T, 0, len(rel)+1)
	cs = append(cs, rel...)
	cs = append(cs, goal)
	nonlin := goal.NonLin
	for _, c := range rel {
		if c.NonLin {
			nonlin = true
		}
	}
	// Non-linear queries (position arithmetic with a symbolic file-size limit): first the
	// primary back end alone, then the relaxations below with it, and the slow fall-back
	// solvers only at the end.
	res, mod := s.rawMode(cs, wantModel, nonlin)
	if res == Unknown && len(rel) > 0 {
		// Relaxation: unsat of (subset of pc) ∧ goal implies unsat of pc ∧ goal. Solvers
		// sometimes stall on a constraint that is irrelevant to the goal (e.g. a
		// disequality over a non-linear term); a sat answer of a relaxed query proves nothing.
		var kept []*term.T
		for _, c := range rel {
			if c.Op == term.Not && c.A.Op == term.Eq {
				continue
			}
			kept = append(kept, c)
		}
		if len(kept) < len(rel) {
			if r, _ := s.rawMode(append(append([]*term.T{}, kept...), goal), false, nonlin); r == Unsat {
				atomic.AddInt64(&Global.Relaxed, 1)
				return Unsat, nil
			}
		}
		if len(rel) <= 24 {
			for i := range rel {
				sub := make([]*term.T, 0, len(rel))
				sub = append(sub, rel[:i]...)
				sub = append(sub, rel[i+1:]...)
				sub = append(sub, goal)
				if r, _ := s.rawMode(sub, false, nonlin); r == Unsat {
					atomic.AddInt64(&Global.Relaxed, 1)
					return Unsat, nil
				}
			}
		}
	}
	if res == Unknown && nonlin {
		res, mod = s.rawMode(cs, wantModel, false)
	}
	return res, mod
}

// CheckAll solves every independent component of cs and merges the models.
func (s *S) CheckAll(cs []*term.T, wantModel bool) (Result, term.Model) {
	if !s.Deadline.IsZero() && time.Now().After(s.Deadline) {
		return Unknown, nil
	}
	for _, c := range cs {
		if c.IsFalse() {
			return Unsat, nil
		}
	}
	merged := term.Model{}
	res := Sat
	for _, g := range s.Components(cs) {
		r, mod := s.raw(g, wantModel)
		switch r {
		case Unsat:
			return Unsat, nil
		case Unknown:
			res = Unknown
		}
		for k, v := range mod {
			merged[k] = v
		}
	}
	return res, merged
}

func (s *S) raw(cs []*term.T, wantModel bool) (Result, term.Model) { return s.rawMode(cs, wantModel, false) }

func (s *S) rawMode(cs []*term.T, wantModel bool, primaryOnly bool) (Result, term.Model) {
	atomic.AddInt64(&Global.Queries, 1)
	// canonical order by printing sorted by ID keeps text deterministic per worker;
	// the cache key is the text itself so it is worker independent as long as
	// construction order is deterministic (it is: re-execution).
	p := term.NewPrinter()
	nonlin := false
	for _, c := range cs {
		p.Assert(c)
		if c.NonLin {
			nonlin = true
		}
	}
	text := p.Text()
	syms := p.SymList()
	h := sha256.Sum256([]byte(text))
	cacheMu.Lock()
	ent, ok := cache[h]
	cacheMu.Unlock()
	if ok && (!wantModel || ent.res != Sat || ent.mod != nil) {
		atomic.AddInt64(&Global.CacheHits, 1)
		return ent.res, copyModel(ent.mod)
	}
	var order []*proc
	if nonlin {
		order = []*proc{s.cvc, s.z3, s.z3n}
	} else {
		order = []*proc{s.z3, s.z3n, s.cvc}
	}
	if primaryOnly {
		order = order[:1]
	}
	var res Result
	var mod term.Model
	for _, pr := range order {
		res, mod = s.ask(pr, text, syms, wantModel)
		if res != Unknown {
			if s.Diff {
				var other *proc
				if pr == s.z3 {
					other = s.z3n
				} else {
					other = s.z3
				}
				r2, _ := s.ask(other, text, syms, false)
				if r2 != Unknown && r2 != res {
					s.DiffBad++
					fmt.Printf("SOLVER-DISAGREEMENT %s=%v %s=%v\n%s\n", pr.name, res, other.name, r2, text)
					res = Unknown
				}
			}
			break
		}
	}
	switch res {
	case Sat:
		atomic.AddInt64(&Global.Sat, 1)
	case Unsat:
		atomic.AddInt64(&Global.Unsat, 1)
	default:
		atomic.AddInt64(&Global.Unknown, 1)
		if s.LogFile != nil {
			fmt.Fprintf(s.LogFile, "; UNKNOWN query\n%s\n", text)
		}
	}
	if res != Unknown {
		cacheMu.Lock()
		if len(cache) > 400000 {
			cache = map[[32]byte]cacheEnt{}
		}
		cache[h] = cacheEnt{res, copyModel(mod)}
		cacheMu.Unlock()
	}
	return res, mod
}

func copyModel(m term.Model) term.Model {
	if m == nil {
		return nil
	}
	c := make(term.Model, len(m))
	for k, v := range m {
		c[k] = v
	}
	return c
}

// ResetPath is called at the start of every path.
func (s *S) ResetPath() { s.hardTO = 0 }

func (s *S) ask(p *proc, text string, syms []*term.T, wantModel bool) (Result, term.Model) {
	t0 := time.Now()
	if (!s.Deadline.IsZero() && t0.After(s.Deadline)) || s.hardTO >= 3 {
		// the run's wall budget is used up, or this path keeps producing queries that the
		// solvers do not answer within the hard limit: inconclusive, do not grind on
		return Unknown, nil
	}
	defer func() {
		d := int64(time.Since(t0))
		switch p.name {
		case "z3":
			atomic.AddInt64(&Global.NanosZ3, d)
		case "cvc5":
			atomic.AddInt64(&Global.NanosCVC5, d)
		default:
			atomic.AddInt64(&Global.NanosZ3New, d)
		}
	}()
	if p.cmd == nil || p.dead || p.calls > 20000 {
		if p.cmd != nil {
			p.stop()
		}
		if err := p.start(); err != nil {
			atomic.AddInt64(&Global.Errors, 1)
			return Unknown, nil
		}
	}
	p.calls++
	var sb strings.Builder
	sb.WriteString("(push 1)\n")
	sb.WriteString(text)
	sb.WriteString("(check-sat)\n")
	if _, err := io.WriteString(p.in, sb.String()); err != nil {
		p.stop()
		atomic.AddInt64(&Global.Errors, 1)
		return Unknown, nil
	}
	ans, err := s.readWithDeadline(p)
	if err != nil {
		p.stop()
		atomic.AddInt64(&Global.Errors, 1)
		if err.Error() == "solver hard timeout" {
			s.hardTO++
		}
		return Unknown, nil
	}
	s.hardTO = 0
	res := Unknown
	switch ans {
	case "sat":
		res = Sat
	case "unsat":
		res = Unsat
	case "unknown", "timeout":
		res = Unknown
	default:
		// (error ...) or anything unexpected: inconclusive, restart to resync
		atomic.AddInt64(&Global.Errors, 1)
		if s.LogFile != nil {
			fmt.Fprintf(s.LogFile, "; solver %s answered %q for\n%s\n", p.name, ans, text)
		}
		p.stop()
		return Unknown, nil
	}
	var mod term.Model
	if res == Sat && wantModel && len(syms) > 0 {
		var q strings.Builder
		q.WriteString("(get-value (")
		for _, sy := range syms {
			q.WriteString(term.SymName(sy.Name))
			q.WriteByte(' ')
		}
		q.WriteString("))\n")
		if _, err := io.WriteString(p.in, q.String()); err != nil {
			p.stop()
			return Unknown, nil
		}
		ans, err := s.readWithDeadline(p)
		if err != nil || strings.Contains(ans, "(error") {
			p.stop()
			atomic.AddInt64(&Global.Errors, 1)
			return Unknown, nil
		}
		mod = parseModel(ans)
		if len(mod) != len(syms) {
			atomic.AddInt64(&Global.Errors, 1)
			p.stop()
			return Unknown, nil
		}
	} else if res == Sat && wantModel {
		mod = term.Model{}
	}
	if _, err := io.WriteString(p.in, "(pop 1)\n"); err != nil {
		p.stop()
	}
	return res, mod
}

func (s *S) readWithDeadline(p *proc) (string, error) {
	type ra struct {
		s   string
		err error
	}
	ch := make(chan ra, 1)
	go func() {
		a, e := p.readAnswer()
		ch <- ra{a, e}
	}()
	select {
	case r := <-ch:
		return r.s, r.err
	case <-time.After(time.Duration(s.TimeoutMs*5+5000) * time.Millisecond):
		p.cmd.Process.Kill()
		<-ch
		return "", fmt.Errorf("solver hard timeout")
	}
}

// parseModel parses ((|a| #x00) (|b| #b01) (|c| true) (|d| (_ bv5 32)))
func parseModel(s string) term.Model {
	mod := term.Model{}
	i := 0
	n := len(s)
	for i < n {
		// find next '|'
		j := strings.IndexByte(s[i:], '|')
		if j < 0 {
			break
		}
		j += i
		k := strings.IndexByte(s[j+1:], '|')
		if k < 0 {
			break
		}
		k += j + 1
		name := s[j+1 : k]
		// value starts after k+1, skip spaces
		v := k + 1
		for v < n && (s[v] == ' ' || s[v] == '\n' || s[v] == '\t') {
			v++
		}
		var val uint64
		end := v
		switch {
		case strings.HasPrefix(s[v:], "#x"):
			end = v + 2
			for end < n && isHex(s[end]) {
				end++
			}
			val, _ = strconv.ParseUint(s[v+2:end], 16, 64)
		case strings.HasPrefix(s[v:], "#b"):
			end = v + 2
			for end < n && (s[end] == '0' || s[end] == '1') {
				end++
			}
			val, _ = strconv.ParseUint(s[v+2:end], 2, 64)
		case strings.HasPrefix(s[v:], "true"):
			val = 1
			end = v + 4
		case strings.HasPrefix(s[v:], "false"):
			val = 0
			end = v + 5
		case strings.HasPrefix(s[v:], "(_ bv"):
			end = v + 5
			st := end
			for end < n && s[end] >= '0' && s[end] <= '9' {
				end++
			}
			val, _ = strconv.ParseUint(s[st:end], 10, 64)
		default:
			i = k + 1
			continue
		}
		mod[name] = val
		i = end
	}
	return mod
}

func isHex(c byte) bool {
	return c >= '0' && c <= '9' || c >= 'a' && c <= 'f' || c >= 'A' && c <= 'F'
}
